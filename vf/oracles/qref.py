"""Reference model for target-decoy q-values (no mokapot import).

q_i = min over thresholds t at-or-worse than s_i of min(1, (D(t)+1)/T(t)),
D/T = decoys/targets scoring at-or-better than t; 1 where T(t) == 0.
"""
from __future__ import annotations

import numpy as np


def q_ref_brute(scores, targets, desc=True):
    """O(n*k) direct threshold scan on python numbers."""
    s = [float(x) for x in scores]
    if not desc:
        s = [-x for x in s]
    t = [bool(x) for x in targets]
    n = len(s)
    thresholds = sorted(set(s))
    fdr = {}
    for th in thresholds:
        T = D = 0
        for j in range(n):
            if s[j] >= th:
                if t[j]:
                    T += 1
                else:
                    D += 1
        fdr[th] = 1.0 if T == 0 else min(1.0, (D + 1) / T)
    out = []
    for i in range(n):
        out.append(min(fdr[th] for th in thresholds if th <= s[i]))
    return np.array(out)


def q_ref(scores, targets, desc=True):
    """Vectorised version (searchsorted counts per distinct value)."""
    s = np.asarray(scores).astype(np.float64)
    if not desc:
        s = -s
    s = s + 0.0  # -0.0 -> 0.0
    t = np.asarray(targets).astype(bool)
    vals = np.unique(s)
    ts = np.sort(s[t])
    ds = np.sort(s[~t])
    T = len(ts) - np.searchsorted(ts, vals, "left")
    D = len(ds) - np.searchsorted(ds, vals, "left")
    with np.errstate(divide="ignore", invalid="ignore"):
        fdr = np.where(T > 0, np.minimum(1.0, (D + 1) / np.maximum(T, 1)), 1.0)
    qv = np.minimum.accumulate(fdr)
    return qv[np.searchsorted(vals, s)]


def labels_ref(q, targets, thr):
    t = np.asarray(targets).astype(bool)
    lab = np.zeros(len(t))
    lab[t & (np.asarray(q) <= thr)] = 1
    lab[~t] = -1
    return lab


def structural_faults(q, scores, desc=True):
    """Exact checks on returned values: range, tie equality, monotonicity."""
    q = np.asarray(q, dtype=float)
    s = np.asarray(scores).astype(np.float64)
    if not desc:
        s = -s
    faults = []
    if not np.all(np.isfinite(q)):
        faults.append("nonfinite")
        return faults
    if np.any(q <= 0) or np.any(q > 1):
        faults.append("range")
    order = np.argsort(-s, kind="stable")
    so, qo = s[order], q[order]
    if np.any(np.diff(qo) < 0):
        faults.append("nonmonotone")
    same = np.diff(so) == 0
    if np.any(qo[1:][same] != qo[:-1][same]):
        faults.append("tie_unequal")
    return faults
