"""Direct check of the protein-grouping conditions (no mokapot import).

Input: prot_peps {protein name -> set of peptides} for every protein yielding >=1
peptide, and the three maps produced by read_fasta. Group membership is parsed from
group names (members joined by ', '; shared peptide values joined by '; ')."""
from __future__ import annotations


def parse_groups(peptide_map, shared_peptides):
    groups = set(peptide_map.values())
    for v in shared_peptides.values():
        groups.update(v.split("; "))
    return {g: tuple(g.split(", ")) for g in groups}


def canonical(prot_peps, peptide_map, shared_peptides):
    groups = parse_groups(peptide_map, shared_peptides)
    out = []
    for g, members in groups.items():
        peps = set()
        for m in members:
            peps |= prot_peps.get(m, set())
        out.append((tuple(sorted(members)), tuple(sorted(peps))))
    uniq = sorted((p, tuple(sorted(groups[g]))) for p, g in peptide_map.items())
    shared = sorted((p, tuple(sorted(tuple(sorted(groups[g])) for g in v.split("; ")))) for p, v in shared_peptides.items())
    return (tuple(sorted(out)), tuple(uniq), tuple(shared))


def check(prot_peps, peptide_map, shared_peptides, protein_map, prefix):
    """Return list of (kind, detail)."""
    bad = []
    groups = parse_groups(peptide_map, shared_peptides)
    # member names must be known proteins
    for g, members in groups.items():
        for m in members:
            if m not in prot_peps:
                bad.append(("unknown_member", {"group": g, "member": m}))
                return bad
        if len(set(members)) != len(members):
            bad.append(("duplicate_member", {"group": g}))
    gpeps = {g: set().union(*[prot_peps[m] for m in members]) for g, members in groups.items()}
    # 1 every digestible protein belongs to a group
    in_group = set(m for ms in groups.values() for m in ms)
    for p in prot_peps:
        if p not in in_group:
            bad.append(("protein_without_group", {"protein": p}))
    # 2 group's peptide set is that of one member (and so contains all members' peptides)
    for g, members in groups.items():
        if not any(prot_peps[m] == gpeps[g] for m in members):
            bad.append(("group_not_a_member_set", {"group": g, "members": {m: sorted(prot_peps[m]) for m in members}}))
    # 3 no group's peptide set contained in another group's
    gl = list(groups)
    for i, a in enumerate(gl):
        for b in gl:
            if a != b and gpeps[a] <= gpeps[b]:
                if set(groups[a]) == set(groups[b]):
                    bad.append(("duplicate_group", {"a": a, "b": b}))
                else:
                    bad.append(("group_contained", {"inner": a, "outer": b, "inner_peps": sorted(gpeps[a]),
                                                    "outer_peps": sorted(gpeps[b])}))
    # 4/5 unique vs shared peptide maps
    allpeps = set().union(*prot_peps.values()) if prot_peps else set()
    owners = {p: [g for g in groups if p in gpeps[g]] for p in allpeps}
    for p in allpeps:
        own = owners[p]
        if len(own) == 1:
            if p not in peptide_map:
                bad.append(("unique_peptide_not_mapped", {"peptide": p, "owner": own[0],
                                                          "shared_entry": shared_peptides.get(p)}))
            elif peptide_map[p] != own[0]:
                bad.append(("unique_peptide_wrong_group", {"peptide": p, "mapped": peptide_map[p], "owner": own[0]}))
            if p in shared_peptides:
                bad.append(("unique_peptide_marked_shared", {"peptide": p, "shared": shared_peptides[p]}))
        elif len(own) >= 2:
            if p in peptide_map:
                bad.append(("shared_peptide_mapped_unique", {"peptide": p, "mapped": peptide_map[p], "owners": own}))
            if p not in shared_peptides:
                bad.append(("shared_peptide_not_recorded", {"peptide": p, "owners": own}))
            elif set(shared_peptides[p].split("; ")) != set(own):
                bad.append(("shared_peptide_wrong_groups", {"peptide": p, "recorded": shared_peptides[p], "owners": own}))
        else:
            bad.append(("peptide_without_group", {"peptide": p}))
    for p in list(peptide_map) + list(shared_peptides):
        if p not in allpeps:
            bad.append(("unknown_peptide", {"peptide": p}))
    # 6 target/decoy pairing
    for p in prot_peps:
        if not p.startswith(prefix):
            if protein_map.get(p) != prefix + p:
                bad.append(("target_not_paired", {"target": p, "mapped": protein_map.get(p)}))
    # the map pairs *target* proteins with their decoys: a decoy entry listed as a target of its own is no pair
    for p in protein_map:
        if str(p).startswith(prefix) and p in prot_peps:
            bad.append(("decoy_listed_as_target", {"entry": p, "mapped": protein_map.get(p)}))
            break
    return bad
