"""Sequential model of k-fold cross-validation, checked against the event log of
the recording estimator (no mokapot import).

log events: {"ev": "fit"|"score", "uid", "rids", "y"|"out", "seq", ...}
tabs: list of generated tables (one per input file) with df['rid'] and spectrum keys.
"""
from __future__ import annotations

import numpy as np


def split_log(log):
    """(training_events, final_score_events).

    The training loop of one model produces, per iteration, one fit event followed by one
    scoring event on the whole training set; so for each uid the first (number of fits)
    scoring events belong to training and every later scoring event is a prediction."""
    by_uid = {}
    for e in sorted(log, key=lambda e: e["seq"]):
        by_uid.setdefault(e["uid"], []).append(e)
    training, final = [], []
    for uid, evs in by_uid.items():
        nfit = sum(1 for e in evs if e["ev"] == "fit")
        seen_scores = 0
        for e in evs:
            if e["ev"] == "fit":
                training.append(e)
            elif seen_scores < nfit:
                seen_scores += 1
                training.append(e)
            else:
                final.append(e)
    training.sort(key=lambda e: e["seq"])
    final.sort(key=lambda e: e["seq"])
    return training, final


def rid_info(tabs):
    """rid -> (file index, spectrum key tuple, row position)."""
    info = {}
    for fi, tab in enumerate(tabs):
        df = tab["df"]
        keys = list(map(tuple, df[tab["spectrum_columns"]].itertuples(index=False, name=None)))
        for pos, (rid, k) in enumerate(zip(df["rid"].tolist(), keys)):
            info[int(rid)] = (fi, k, pos)
    return info


def analyze(log, tabs, folds, model_uids=None, cap=None, check_model_count=True, complete=True):
    """Return (violations, facts). violations: list of (kind, detail)."""
    bad = []
    info = rid_info(tabs)
    training, final = split_log(log)
    facts = {"n_fit_events": sum(1 for e in training if e["ev"] == "fit"), "n_final_score_events": len(final)}
    # training set per uid = everything the estimator saw before/at its fits (fit rows and the
    # whole-training-set scoring after each fit)
    train_rids = {}
    fit_rids = {}
    for e in training:
        train_rids.setdefault(e["uid"], set()).update(int(r) for r in e["rids"])
        if e["ev"] == "fit":
            fit_rids.setdefault(e["uid"], set()).update(int(r) for r in e["rids"])
    facts["train_sizes"] = {u: len(v) for u, v in train_rids.items()}
    uids_fit = sorted(fit_rids)
    if len(uids_fit) > folds or (check_model_count and len(uids_fit) != folds):
        bad.append(("model_count", {"models_fitted": len(uids_fit), "folds": folds}))
    scored_by = {}
    for e in final:
        for r in e["rids"]:
            scored_by.setdefault(int(r), []).append(e["uid"])
    facts["scored_rows"] = len(scored_by)
    if final:
        # partition: every row scored exactly once
        # a run that stopped with an explicit error may have predicted only some files/chunks
        missing = [r for r in info if r not in scored_by] if complete else []
        multi = [r for r, u in scored_by.items() if len(u) != 1]
        unknown = [r for r in scored_by if r not in info]
        if missing:
            bad.append(("row_not_scored", {"n": len(missing), "example_rid": missing[:5]}))
        if multi:
            bad.append(("row_scored_twice", {"n": len(multi), "example": {str(r): scored_by[r] for r in multi[:3]}}))
        if unknown:
            bad.append(("unknown_row_scored", {"n": len(unknown)}))
        scoring_uids = sorted({u for us in scored_by.values() for u in us})
        facts["scoring_uids"] = scoring_uids
        if not missing and not multi:
            per_file_uids = {}
            for r, us in scored_by.items():
                per_file_uids.setdefault(info[r][0], set()).add(us[0])
            for fi, us in per_file_uids.items():
                n_rows = sum(1 for r in info if info[r][0] == fi)
                if len(us) != folds and n_rows >= folds and complete:
                    bad.append(("fold_count", {"file": fi, "folds_with_rows": len(us), "folds": folds}))
            if any(u not in fit_rids for u in scoring_uids):
                bad.append(("scored_by_unfitted_model", {"uids": [u for u in scoring_uids if u not in fit_rids]}))
            if model_uids is not None and sorted(model_uids) != scoring_uids and len(scoring_uids) == folds:
                bad.append(("returned_models_differ", {"returned": sorted(model_uids), "scoring": scoring_uids}))
            # spectrum closure
            spec_fold = {}
            for r, us in scored_by.items():
                fi, key, _ = info[r]
                spec_fold.setdefault((fi, key), set()).add(us[0])
            split = [k for k, v in spec_fold.items() if len(v) > 1]
            if split:
                bad.append(("spectrum_split_across_folds", {"n": len(split), "example": str(split[0])}))
            # held-out: model's training data must not contain its scored rows nor their spectra
            test_rids = {}
            for r, us in scored_by.items():
                test_rids.setdefault(us[0], set()).add(r)
            for u, tr in train_rids.items():
                te = test_rids.get(u, set())
                inter = tr & te
                if inter:
                    bad.append(("trained_on_heldout_row", {"uid": u, "n": len(inter), "example_rid": sorted(inter)[:5],
                                                           "train_size": len(tr), "test_size": len(te)}))
                    continue
                te_spec = {(info[r][0], info[r][1]) for r in te if r in info}
                leak = [r for r in tr if r in info and (info[r][0], info[r][1]) in te_spec]
                if leak:
                    bad.append(("trained_on_heldout_spectrum", {"uid": u, "n": len(leak), "example_rid": leak[:5]}))
    if cap is not None:
        for u, tr in train_rids.items():
            if len(tr) > cap:
                bad.append(("training_cap_exceeded", {"uid": u, "size": len(tr), "cap": cap}))
    return bad, facts


def final_outputs(log):
    """rid -> (uid, raw output) from the final scoring events."""
    _, final = split_log(log)
    out = {}
    for e in final:
        for r, v in zip(e["rids"], e["out"]):
            out[int(r)] = (e["uid"], float(v))
    return out
