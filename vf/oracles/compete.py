"""Reference model for target-decoy competition / rollup (no mokapot import).

All judgements are tie tolerant: a retained row must be *a* maximum-score row of
its group and must be one of the input PSMs; higher levels are judged relative to
the PSM rows actually retained (read from the PSM-level files)."""
from __future__ import annotations

import numpy as np
import pandas as pd

from vf.oracles.qref import q_ref


def judge_level_files(inp, files, level, group_cols, dedup_this_level, base_rows=None, check_q=True,
                      extra_cols=(), qcol="q-value"):
    """inp: DataFrame of input PSMs with columns SpecId, _target (bool), _score, Peptide, Proteins,
    plus group columns. files: {'targets': df or None, 'decoys': df or None} (decoys may be None when
    not written). base_rows: set of SpecIds among which the level competes (None = all input rows).
    Returns (violations list of (kind, detail), retained SpecIds or None)."""
    bad = []
    byid = inp.set_index("SpecId", drop=False)
    frames = []
    for lab, is_t in (("targets", True), ("decoys", False)):
        df = files.get(lab)
        if df is None:
            continue
        df = df.copy()
        df["_file_target"] = is_t
        frames.append(df)
    if not frames:
        return [("no_output", {"level": level})], None
    out = pd.concat(frames, ignore_index=True)
    have_decoys = files.get("decoys") is not None
    ids = out["PSMId"].astype(str).tolist()
    unknown = [i for i in ids if i not in byid.index]
    if unknown:
        return [("row_not_an_input_psm", {"level": level, "ids": unknown[:5]})], None
    src = byid.loc[ids]
    # every output row carries the fields of one and the same input PSM
    for ocol, icol in (("peptide", "Peptide"), ("proteinIds", "Proteins")) + tuple((c, c) for c in extra_cols):
        if ocol not in out.columns:
            bad.append(("missing_column", {"level": level, "column": ocol, "columns": list(out.columns)}))
            continue
        miss = {"nan", "None", "<NA>", "NaN", ""}
        a = ["" if (x is None or x != x or str(x) in miss) else str(x) for x in out[ocol].tolist()]
        b = ["" if (x is None or x != x or str(x) in miss) else str(x) for x in src[icol].tolist()]
        if a != b:
            i = next(i for i, (x, y) in enumerate(zip(a, b)) if x != y)
            bad.append(("row_fields_mixed", {"level": level, "column": ocol, "psm": ids[i], "got": a[i], "expected": b[i]}))
    if "score" not in out.columns:
        return bad + [("missing_column", {"level": level, "column": "score"})], None
    sc = out["score"].values.astype(float)
    if not np.allclose(sc, src["_score"].values, rtol=1e-9, atol=1e-12):
        i = int(np.flatnonzero(~np.isclose(sc, src["_score"].values, rtol=1e-9, atol=1e-12))[0])
        bad.append(("score_not_of_that_psm", {"level": level, "psm": ids[i], "got": float(sc[i]),
                                               "expected": float(src["_score"].values[i])}))
    # targets / decoys in their own files
    wrong = out["_file_target"].values != src["_target"].values
    if wrong.any():
        bad.append(("wrong_output_file", {"level": level, "n": int(wrong.sum()), "psm": ids[int(np.flatnonzero(wrong)[0])]}))
    # order inside each file
    for df in frames:
        s = df["score"].values.astype(float)
        if np.any(np.diff(s) > 1e-12):
            bad.append(("not_sorted", {"level": level, "file_target": bool(df["_file_target"].iloc[0]),
                                       "at": int(np.flatnonzero(np.diff(s) > 1e-12)[0])}))
    if bad:
        return bad, None
    # competition
    pool = inp if base_rows is None else inp[inp["SpecId"].isin(base_rows)]
    if not have_decoys:
        pool_visible = pool  # judged through expected-set comparison below
    key = list(map(tuple, pool[list(group_cols)].astype(str).itertuples(index=False, name=None)))
    pool = pool.assign(_key=key)
    gmax = pool.groupby("_key")["_score"].max()
    out_key = list(map(tuple, src[list(group_cols)].astype(str).itertuples(index=False, name=None)))
    if dedup_this_level:
        seen = {}
        for i, k in zip(ids, out_key):
            seen.setdefault(k, []).append(i)
        dup = {k: v for k, v in seen.items() if len(v) > 1}
        if dup:
            k = next(iter(dup))
            bad.append(("entity_twice", {"level": level, "entity": str(k), "psms": dup[k][:4]}))
        not_in_pool = [i for i in ids if i not in set(pool["SpecId"])]
        if not_in_pool:
            bad.append(("row_from_losing_psm", {"level": level, "psms": not_in_pool[:5]}))
        else:
            for i, k, s in zip(ids, out_key, sc):
                if not np.isclose(s, gmax[k], rtol=1e-9, atol=1e-12):
                    bad.append(("not_the_best_of_its_group", {"level": level, "entity": str(k), "psm": i, "score": float(s),
                                                              "group_max": float(gmax[k])}))
                    break
        if have_decoys:
            missing = set(gmax.index) - set(out_key)
            if missing:
                bad.append(("entity_missing", {"level": level, "n": len(missing), "entity": str(next(iter(missing)))}))
        else:
            # only targets visible: entities whose every maximum row is a target must be present;
            # entities whose every maximum row is a decoy must be absent
            top = pool[np.isclose(pool["_score"], pool["_key"].map(gmax), rtol=1e-9, atol=1e-12)]
            all_t = top.groupby("_key")["_target"].all()
            must = set(all_t[all_t].index)
            missing = must - set(out_key)
            if missing:
                bad.append(("entity_missing", {"level": level, "n": len(missing), "entity": str(next(iter(missing)))}))
    else:
        # no competition at this level: every pool row must be present exactly once
        want = pool if have_decoys else pool[pool["_target"]]
        if sorted(ids) != sorted(want["SpecId"].astype(str).tolist()):
            missing = set(want["SpecId"].astype(str)) - set(ids)
            extra = set(ids) - set(want["SpecId"].astype(str))
            bad.append(("psm_rows_lost_or_duplicated", {"level": level, "expected": len(want), "got": len(ids),
                                                         "missing": sorted(missing)[:5], "unexpected": sorted(extra)[:5],
                                                         "duplicates": len(ids) - len(set(ids))}))
    retained = set(ids) if have_decoys else None
    # q-values = formula over exactly the retained rows of this level
    if check_q and have_decoys and not bad and qcol in out.columns:
        q_exp = q_ref(sc, src["_target"].values, True)
        q_got = out[qcol].values.astype(float)
        if not np.allclose(q_got, q_exp, rtol=1e-5, atol=1e-9):
            i = int(np.flatnonzero(~np.isclose(q_got, q_exp, rtol=1e-5, atol=1e-9))[0])
            bad.append(("q_value_not_formula_on_retained_rows", {"level": level, "psm": ids[i], "got": float(q_got[i]),
                                                                  "expected": float(q_exp[i]), "n_rows": len(ids)}))
    return bad, retained
