"""File-system event log + fault injector built on sys.addaudithook.

Records every Python-level mutating file event under the watched roots (open for
writing/appending, remove, rename, mkdir, rmdir); pyarrow writes bypass Python's
open(), so ParquetWriter / DataFrame.to_parquet are wrapped to emit events too.
At event number `crash_at` the injector raises InjectedCrash (a BaseException: Python
unwinds, finally blocks run) or calls os._exit (nothing runs).
"""
from __future__ import annotations

import os
import sys
import threading


class InjectedCrash(BaseException):
    pass


class _Ctl:
    def __init__(self):
        self.lock = threading.Lock()
        self.enabled = False
        self.roots = ()
        self.events = []
        self.count = 0
        self.crash_at = None
        self.mode = "exception"
        self.installed = False
        self.last_written = None


CTL = _Ctl()
_MUT = os.O_WRONLY | os.O_RDWR | os.O_CREAT | os.O_TRUNC | os.O_APPEND


def _emit(kind, path, detail=""):
    c = CTL
    if not c.enabled:
        return
    try:
        p = os.fspath(path)
    except TypeError:
        return
    if isinstance(p, bytes):
        p = p.decode(errors="replace")
    if not isinstance(p, str):
        return
    p = os.path.abspath(p)
    if not any(p.startswith(r) for r in c.roots):
        return
    with c.lock:
        c.count += 1
        n = c.count
        c.events.append((n, kind, p, detail))
        if kind in ("open_w", "pq_write"):
            c.last_written = p
        fire = c.crash_at is not None and n == c.crash_at
    if fire:
        if c.mode == "exception":
            raise InjectedCrash(f"injected crash at event {n}: {kind} {p}")
        os._exit(137)


def _hook(event, args):
    if not CTL.enabled:
        return
    if event == "open":
        path, mode, flags = args
        if isinstance(path, int):
            return
        mut = False
        if isinstance(mode, str):
            mut = any(ch in mode for ch in "wax+")
        elif isinstance(flags, int):
            mut = bool(flags & _MUT)
        if mut:
            _emit("open_w", path, str(mode))
    elif event == "os.remove":
        _emit("remove", args[0])
    elif event == "os.rename":
        _emit("rename", args[0], str(args[1]))
    elif event == "os.mkdir":
        _emit("mkdir", args[0])
    elif event == "os.rmdir":
        _emit("rmdir", args[0])


def install():
    if CTL.installed:
        return
    sys.addaudithook(_hook)
    # pyarrow / pandas parquet writes do not go through Python's open()
    try:
        import pandas as pd
        import pyarrow.parquet as pq

        o_init, o_write, o_close = pq.ParquetWriter.__init__, pq.ParquetWriter.write_table, pq.ParquetWriter.close

        def init(self, where, *a, **kw):
            _emit("pq_write", where, "ParquetWriter")
            return o_init(self, where, *a, **kw)

        def write_table(self, *a, **kw):
            _emit("pq_write", getattr(self, "where", None) or "", "write_table")
            return o_write(self, *a, **kw)

        def close(self, *a, **kw):
            return o_close(self, *a, **kw)

        pq.ParquetWriter.__init__ = init
        pq.ParquetWriter.write_table = write_table
        pq.ParquetWriter.close = close
        o_tp = pd.DataFrame.to_parquet

        def to_parquet(self, path=None, *a, **kw):
            if path is not None:
                _emit("pq_write", path, "to_parquet")
            return o_tp(self, path, *a, **kw)

        pd.DataFrame.to_parquet = to_parquet
    except Exception:  # noqa: BLE001
        pass
    CTL.installed = True


class watch:
    """with watch([dir], crash_at=k, mode='exception'|'kill') as w: ...; w.events afterwards."""

    def __init__(self, roots, crash_at=None, mode="exception"):
        self.roots = tuple(os.path.abspath(os.fspath(r)) for r in roots)
        self.crash_at = crash_at
        self.mode = mode
        self.events = []

    def __enter__(self):
        install()
        with CTL.lock:
            CTL.roots = self.roots
            CTL.events = []
            CTL.count = 0
            CTL.crash_at = self.crash_at
            CTL.mode = self.mode
            CTL.last_written = None
            CTL.enabled = True
        return self

    def __exit__(self, *exc):
        with CTL.lock:
            CTL.enabled = False
            self.events = list(CTL.events)
            self.last_written = CTL.last_written
            CTL.crash_at = None
        return False
