"""Run one read_pin -> brew -> assign_confidence pipeline in *this* interpreter and dump
canonical artefacts. Used in-process and as `python -m vf.instruments.pipeline_main spec.json`
(fresh interpreter: PYTHONHASHSEED / MOKAPOT_* environment variants).

spec: {paths, dest, learner, folds, seed, test_fdr, train_fdr, workers, max_iter, delay, dedup, rollup,
       peps_algorithm, fasta (optional), fasta_kwargs, chunk_sizes (optional, in-process patch), percolator (bool)}
Writes dest/_artefacts.json: {status, error, scores_sha, scores (list per file), fold_assignment_sha,
       coef_sha, files: {name: sha256}, file_rows: {...}}
"""
from __future__ import annotations

import hashlib
import json
import sys
from pathlib import Path

import numpy as np


def _sha(b: bytes) -> str:
    return hashlib.sha256(b).hexdigest()


def run(spec):
    """With spec['perturb'] = seed the joblib task functions are wrapped with seeded sleeps (vf.instruments.scheduler)."""
    if spec.get("perturb") is not None and not spec.get("_perturbed"):
        from vf.instruments import scheduler

        with scheduler.perturb(int(spec["perturb"])) as trace:
            out = run(dict(spec, _perturbed=True))
        if isinstance(out, dict):
            out["sched_threads"] = trace.threads()
            out["sched_out_of_order_kinds"] = trace.out_of_order()
            out["sched_tasks"] = len(trace.events)
            out["sched_missing"] = trace.missing
            out["sched_signature"] = hashlib.sha256(json.dumps(sorted((k, list(v)) for k, v in trace.completion_signature().items())).encode()).hexdigest()[:12]
        return out
    return _run(spec)


def _run(spec):
    from vf import core
    from vf.instruments import pipeline, recorder
    from vf.oracles import cv

    mokapot = core.import_mokapot()
    dest = Path(spec["dest"])
    dest.mkdir(parents=True, exist_ok=True)
    out = {"status": "ok"}
    sizes = spec.get("chunk_sizes") or {}
    if not spec.get("no_np_seed"):
        np.random.seed(int(spec.get("seed", 0)))  # the CLI does the same; match_decoy uses the global state
    with core.chunk_sizes(**sizes):
        c = core.Call(pipeline.read_datasets, spec["paths"], int(spec.get("read_workers", spec.get("workers", 1))))
        if not c.ok:
            return dict(status="error", stage="read", error=c.info, sig=c.sig, explicit=c.explicit)
        datasets = c.value
        seed = int(spec.get("seed", 0))
        tag = recorder.new_run_tag()
        if spec.get("load_models"):
            import pickle

            with open(spec["load_models"], "rb") as fh:
                model = pickle.load(fh)      # the trained models of an earlier run (documented: brew(model=[...]))
        elif spec.get("default_model"):
            model = None                      # brew's own default model, seeded only through brew(rng=...)
        elif spec.get("percolator"):
            model = mokapot.PercolatorModel(train_fdr=spec.get("train_fdr", 0.05), max_iter=spec.get("max_iter", 2), rng=seed)
        else:
            model = pipeline.make_model(datasets, spec.get("learner", "linear"), spec.get("train_fdr", 0.05),
                                        spec.get("max_iter", 2), seed, spec.get("delay", 0.0), spec.get("override", False), tag=tag)
        c = core.Call(mokapot.brew, datasets, model=model, test_fdr=spec.get("test_fdr", 0.05), folds=spec.get("folds", 3),
                      max_workers=int(spec.get("workers", 1)), rng=seed, subset_max_train=spec.get("subset_max_train"),
                      ensemble=bool(spec.get("ensemble", False)))
        log = recorder.snapshot(tag)
        if not c.ok:
            return dict(status="error", stage="brew", error=c.info, sig=c.sig, explicit=c.explicit)
        psms, models, scores, descs = c.value
        if spec.get("dump_models"):
            import pickle

            with open(spec["dump_models"], "wb") as fh:
                pickle.dump(list(models), fh)
        scores = [np.asarray(s, dtype=float).reshape(-1) for s in scores]
        out["scores"] = [s.tolist() for s in scores]
        out["scores_sha"] = _sha(b"".join(s.tobytes() for s in scores))
        out["descs"] = [bool(x) for x in descs]
        # fold assignment: which model scored which row (from the estimator log) in canonical form
        fin = cv.final_outputs(log) if not (spec.get("ensemble") or spec.get("load_models")) else None  # in ensemble mode every model scores every row
        if fin:
            uid_order = {}
            for m_i, m in enumerate(models):
                uid_order[getattr(m.estimator, "uid_", None)] = m_i
            fa = sorted((int(r), uid_order.get(u, -1)) for r, (u, _) in fin.items())
            out["fold_assignment_sha"] = _sha(json.dumps(fa).encode())
            out["n_scored"] = len(fa)
        coefs = []
        for m in models:
            est = m.estimator
            inner = getattr(est, "inner_", None)
            if inner is not None and hasattr(inner, "w"):
                coefs.append(np.r_[inner.w, inner.b].tobytes())
            elif inner is not None and hasattr(inner, "m") and hasattr(inner.m, "coef_"):
                coefs.append(np.r_[inner.m.coef_.ravel(), inner.m.intercept_.ravel()].tobytes())
            elif hasattr(est, "coef_"):
                coefs.append(np.r_[np.asarray(est.coef_).ravel(), np.asarray(est.intercept_).ravel()].tobytes())
        out["coef_sha"] = _sha(b"".join(coefs)) if coefs else None
        out["threads"] = len({e["thread"] for e in log})
        proteins = None
        if spec.get("fasta"):
            c = core.Call(mokapot.read_fasta, spec["fasta"], **(spec.get("fasta_kwargs") or {}))
            if not c.ok:
                return dict(status="error", stage="fasta", error=c.info, sig=c.sig, explicit=c.explicit)
            proteins = c.value
        c = pipeline.run_confidence(psms, scores, dest, descs=descs, prefixes=spec.get("prefixes"), eval_fdr=spec.get("test_fdr", 0.05),
                                    max_workers=int(spec.get("workers", 1)), decoys=True, rng=seed,
                                    deduplication=spec.get("dedup", True), do_rollup=spec.get("rollup", True),
                                    proteins=proteins, peps_algorithm=spec.get("peps_algorithm", "qvality"))
        if not c.ok:
            return dict(out, status="error", stage="confidence", error=c.info, sig=c.sig, explicit=c.explicit)
    files, rows = {}, {}
    for p in sorted(dest.iterdir()):
        if p.is_file() and not p.name.startswith("_"):
            b = p.read_bytes()
            files[p.name] = _sha(b)
            rows[p.name] = b.count(b"\n")
    out["files"] = files
    out["file_rows"] = rows
    return out


def main():
    spec = json.load(open(sys.argv[1]))
    import logging
    import warnings

    warnings.simplefilter("ignore")
    logging.disable(logging.CRITICAL)
    try:
        res = run(spec)
    except BaseException as e:  # noqa: BLE001
        import traceback

        res = {"status": "harness_error", "trace": traceback.format_exc()[-3000:], "msg": str(e)}
    with open(Path(spec["dest"]) / "_artefacts.json", "w") as fh:
        json.dump(res, fh, default=str)


if __name__ == "__main__":
    main()
