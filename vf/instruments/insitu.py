"""In-situ recording contracts: replace a module attribute with a wrapper that
calls the original, evaluates a post-condition and *records* the outcome under a
lock. It never raises and never changes the result. Zero evaluations = 'not
reached', which the caller reports."""
from __future__ import annotations

import contextlib
import functools
import sys
import threading

from vf import core

_LOCK = threading.Lock()


@contextlib.contextmanager
def wrap(modname, attr, post, records, also=()):
    """post(args, kwargs, result) -> record (any object). `also`: further
    (module, attr) names bound to the same function by `from x import y`."""
    mod = core.mk(modname)
    orig = getattr(mod, attr, None)
    if orig is None:
        yield False
        return

    @functools.wraps(orig)
    def wrapper(*a, **kw):
        out = orig(*a, **kw)
        try:
            rec = post(a, kw, out)
        except Exception as e:  # noqa: BLE001 - a broken monitor must not alter the run
            rec = ("monitor_error", repr(e))
        with _LOCK:
            records.append(rec)
        return out

    patched = [(mod, attr, orig)]
    setattr(mod, attr, wrapper)
    for m2, a2 in also:
        m = core.mk(m2)
        if getattr(m, a2, None) is orig:
            patched.append((m, a2, orig))
            setattr(m, a2, wrapper)
    try:
        yield True
    finally:
        for m, a2, o in patched:
            setattr(m, a2, o)
