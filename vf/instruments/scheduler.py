"""Schedule perturbation for mokapot's joblib thread tasks.

`perturb(seed)` wraps the module-level task functions that worker threads execute
(missing names are skipped and reported) with seeded random sleeps before and after
the call and records (task kind, task number, thread, start seq, end seq). Together
with a tiny GIL switch interval this makes the completion order of the tasks of
one Parallel call vary; the recorder counts the distinct completion orders seen.
Verdicts never use wall-clock time.
"""
from __future__ import annotations

import contextlib
import functools
import itertools
import sys
import threading
import time

import numpy as np

from vf import core

TASKS = [
    ("mokapot.parsers.pin", "get_rows_from_dataframe"),
    ("mokapot.parsers.pin", "drop_missing_values_and_fill_spectra_dataframe"),
    ("mokapot.parsers.pin", "concat_and_reindex_chunks"),
    ("mokapot.brew", "_fit_model"),
    ("mokapot.brew", "predict_fold"),
    ("mokapot.confidence", "_save_sorted_metadata_chunks"),
]

_LOCK = threading.Lock()


class Trace:
    def __init__(self):
        self.events = []
        self.missing = []
        self.seq = itertools.count(1)

    def completion_signature(self):
        """Per task kind: the order in which task numbers finished."""
        sig = {}
        for kind, n, thr, s, e in sorted(self.events, key=lambda x: x[4]):
            sig.setdefault(kind, []).append(n)
        return {k: tuple(v) for k, v in sig.items()}

    def out_of_order(self):
        """Number of task kinds in which some task finished before an earlier-started one."""
        cnt = 0
        for kind, order in self.completion_signature().items():
            if list(order) != sorted(order):
                cnt += 1
        return cnt

    def threads(self):
        return len({e[2] for e in self.events})


@contextlib.contextmanager
def perturb(seed, max_sleep=0.004):
    trace = Trace()
    patched = []
    old_switch = sys.getswitchinterval()
    counters = {}
    for modname, attr in TASKS:
        try:
            mod = core.mk(modname)
        except Exception:  # noqa: BLE001
            trace.missing.append(f"{modname}.{attr}")
            continue
        orig = getattr(mod, attr, None)
        if orig is None:
            trace.missing.append(f"{modname}.{attr}")
            continue

        def make(orig=orig, attr=attr):
            @functools.wraps(orig)
            def wrapper(*a, **kw):
                with _LOCK:
                    n = counters[attr] = counters.get(attr, 0) + 1
                    s = next(trace.seq)
                r = np.random.default_rng([int(seed) & 0xFFFFFFFF, n, len(attr)])
                time.sleep(float(r.random()) * max_sleep)
                try:
                    return orig(*a, **kw)
                finally:
                    time.sleep(float(r.random()) * max_sleep)
                    with _LOCK:
                        trace.events.append((attr, n, threading.get_ident(), s, next(trace.seq)))
            return wrapper
        setattr(mod, attr, make())
        patched.append((mod, attr, orig))
    sys.setswitchinterval(1e-6)
    try:
        yield trace
    finally:
        sys.setswitchinterval(old_switch)
        for mod, attr, orig in patched:
            setattr(mod, attr, orig)
