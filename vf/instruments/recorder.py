"""Recording estimator / pass-through scaler handed to mokapot through the public
Model API. Every fit / scoring call is appended, under one lock, to a
process-global log keyed by a uid minted at first use of each (deep-)copy."""
from __future__ import annotations

import itertools
import threading
import time

import numpy as np
from sklearn.base import BaseEstimator

LOG = []
LOCK = threading.Lock()
_UID = itertools.count(1)
_SEQ = itertools.count(1)


def reset():
    with LOCK:
        del LOG[:]


_RUN = itertools.count(1)


def new_run_tag():
    """Tag for the events of one observed run: threads of an earlier, aborted run may still be
    appending events (joblib does not join its workers on error), so logs are filtered by tag."""
    return f"run{next(_RUN)}"


def snapshot(tag=None):
    with LOCK:
        return [e for e in LOG if tag is None or e.get("tag") == tag]


class PassThroughScaler(BaseEstimator):
    def fit(self, X, y=None):
        return self

    def transform(self, X):
        return np.asarray(X)

    def fit_transform(self, X, y=None):
        return np.asarray(X)


class _Inner:
    """Tiny deterministic learners (no randomness unless seeded)."""

    def __init__(self, kind, seed):
        self.kind = kind
        self.seed = seed

    def fit(self, X, y):
        k = self.kind
        y = np.asarray(y).astype(int)
        if k in ("linear", "invert", "logit"):
            pos, neg = X[y == 1], X[y != 1]
            sd = X.std(axis=0) + 1e-9
            if len(pos) and len(neg):
                self.w = (pos.mean(axis=0) - neg.mean(axis=0)) / sd**2
                self.b = -0.5 * float((pos.mean(axis=0) + neg.mean(axis=0)) @ self.w)
            else:
                self.w = np.zeros(X.shape[1])
                self.b = 0.0
            if k == "logit":
                self.scale = 3.0 * (float(np.std(X @ self.w)) or 1.0)
        elif k == "online":
            # one pass of a perceptron-like update: deliberately sensitive to the order of the rows
            sd = X.std(axis=0) + 1e-9
            Z = (X - X.mean(axis=0)) / sd
            w = np.zeros(X.shape[1])
            b = 0.0
            for i in range(len(y)):
                t = 1.0 if y[i] == 1 else -1.0
                if t * (Z[i] @ w + b) < 1.0:
                    w += 0.05 * t * Z[i]
                    b += 0.05 * t
            self.w = w / sd
            self.b = b - float((X.mean(axis=0) / sd) @ w)
        elif k == "spiky":
            # exact on its training rows; elsewhere a good linear ranking in the bulk, but a few rows (keyed by
            # content, unrelated to the label) are pushed to the very top - harmless at a 1 % FDR, ruinous at 0.3 %
            pos, neg = X[y == 1], X[y != 1]
            sd = X.std(axis=0) + 1e-9
            self.w = (pos.mean(axis=0) - neg.mean(axis=0)) / sd**2 if len(pos) and len(neg) else np.zeros(X.shape[1])
            self.scale = float(np.std(X @ self.w)) or 1.0
            self.memory = {int(r): (1.0 if t == 1 else -1.0) for r, t in zip(self.rids, y)}
        elif k == "overfit":
            # memorises its training rows exactly, generalises poorly (a degraded linear direction elsewhere)
            pos, neg = X[y == 1], X[y != 1]
            sd = X.std(axis=0) + 1e-9
            self.w = (pos.mean(axis=0) - neg.mean(axis=0)) / sd**2 if len(pos) and len(neg) else np.zeros(X.shape[1])
            self.scale = float(np.std(X @ self.w)) or 1.0
            self.memory = {int(r): (1.0 if t == 1 else -1.0) for r, t in zip(self.rids, y)}
        elif k == "weak":
            pos, neg = X[y == 1], X[y != 1]
            sd = X.std(axis=0) + 1e-9
            self.w = (pos.mean(axis=0) - neg.mean(axis=0)) / sd**2 if len(pos) and len(neg) else np.zeros(X.shape[1])
            self.b = 0.0
            self.scale = float(np.std(X @ self.w)) or 1.0
        elif k == "svc":
            from sklearn.svm import LinearSVC

            self.m = LinearSVC(dual=False, random_state=7).fit(X, y)
        elif k == "tree":
            from sklearn.ensemble import ExtraTreesClassifier

            self.m = ExtraTreesClassifier(n_estimators=20, bootstrap=False, random_state=self.seed).fit(X, y)
        elif k == "knn":
            from sklearn.neighbors import KNeighborsClassifier

            self.m = KNeighborsClassifier(n_neighbors=min(7, len(y)), weights="distance").fit(X, y)
        elif k == "onetree":
            from sklearn.tree import DecisionTreeClassifier

            self.m = DecisionTreeClassifier(random_state=self.seed).fit(X, y)
        return self

    def score(self, X):
        k = self.kind
        if k in ("linear", "online"):
            return X @ self.w + self.b
        if k == "spiky":
            h = np.abs(np.sin(X.sum(axis=1) * 91.7 + self.seed) * 43758.5453)
            u = h - np.floor(h)
            base = (X @ self.w) / self.scale + np.where(u < 0.0012, 25.0, 0.0)
            mem = np.array([self.memory.get(int(r), 0.0) for r in self.score_rids])
            return np.where(mem != 0, mem * 50.0 + 0.01 * base, base)
        if k == "overfit":
            h = np.abs(np.sin(X.sum(axis=1) * 78.233 + self.seed) * 43758.5453)
            base = (X @ self.w) / self.scale + (0.6 + 0.3 * (self.seed % 2)) * ((h - np.floor(h)) - 0.5) * 3.46
            mem = np.array([self.memory.get(int(r), 0.0) for r in self.score_rids])
            return np.where(mem != 0, mem * 50.0 + 0.01 * base, base)
        if k == "weak":
            # a real but degraded ranking: the learned direction plus content-keyed pseudo-noise
            h = np.abs(np.sin(X.sum(axis=1) * 78.233 + self.seed) * 43758.5453)
            return X @ self.w + 1.1 * self.scale * ((h - np.floor(h)) - 0.5) * 3.46
        if k == "invert":
            return -(X @ self.w + self.b)
        if k == "logit":
            # a probability that is strictly monotone in the linear score: tie-free whenever the features are
            return 1.0 / (1.0 + np.exp(-np.clip((X @ self.w + self.b) / self.scale, -30, 30)))
        if k == "svc":
            return self.m.decision_function(X)
        if k in ("tree", "knn", "onetree"):
            p = self.m.predict_proba(X)
            return p[:, 1] if p.shape[1] > 1 else p[:, 0]
        if k == "constant":
            return np.zeros(len(X))
        if k == "noise":
            # deterministic function of the row content, unrelated to labels
            h = np.abs(np.sin(X.sum(axis=1) * 12.9898 + self.seed) * 43758.5453)
            return h - np.floor(h)
        raise ValueError(k)


class RecordingEstimator(BaseEstimator):
    """sklearn-compatible wrapper. `rid_col` is the position of the unique row id
    feature; it is stripped before the inner learner sees the data."""

    def __init__(self, kind="linear", rid_col=-1, delay=0.0, seed=0, tag=""):
        self.kind = kind
        self.rid_col = rid_col
        self.delay = delay
        self.seed = seed
        self.tag = tag

    def __getstate__(self):
        st = dict(self.__dict__)
        st.pop("_last_X", None)
        return st

    # -- helpers
    def _uid(self):
        if not hasattr(self, "uid_"):
            self.uid_ = next(_UID)
            self.n_fit_ = 0
        return self.uid_

    def _split(self, X):
        X = np.asarray(X, dtype=float)
        rc = self.rid_col % X.shape[1]
        rids = X[:, rc].astype(np.int64)
        return rids, np.delete(X, rc, axis=1)

    def _sleep(self, rids):
        if self.delay:
            # seeded by content so that runs are reproducible but folds differ
            r = np.random.default_rng(int(rids[:3].sum()) + self.seed)
            time.sleep(float(r.random()) * self.delay)

    def fit(self, X, y):
        uid = self._uid()
        rids, Xi = self._split(X)
        self._sleep(rids)
        self.inner_ = _Inner(self.kind, self.seed)
        self.inner_.rids = rids
        self.inner_.fit(Xi, y)
        self._last_X = None
        self.n_fit_ += 1
        with LOCK:
            LOG.append({"ev": "fit", "uid": uid, "iter": self.n_fit_, "rids": rids.copy(),
                        "y": np.asarray(y).copy(), "thread": threading.get_ident(), "seq": next(_SEQ),
                        "tag": self.tag})
        self._sleep(rids)
        return self

    def _score(self, X):
        uid = self._uid()
        rids, Xi = self._split(X)
        self.inner_.score_rids = rids
        out = np.asarray(self.inner_.score(Xi), dtype=float)
        # mokapot's _get_scores calls predict_proba twice on the *same array object* for
        # two-column outputs: that is one logical scoring, logged once (identity, not equality)
        if getattr(self, "_last_X", None) is X:
            self._last_X = None  # only the immediately repeated call is the duplicate
            return out
        self._last_X = X
        self._sleep(rids)
        with LOCK:
            LOG.append({"ev": "score", "uid": uid, "after_fit": getattr(self, "n_fit_", 0), "rids": rids.copy(),
                        "out": out.copy(), "thread": threading.get_ident(), "seq": next(_SEQ), "tag": self.tag})
        return out

    def decision_function(self, X):
        return self._score(X)


class RecordingProbaEstimator(RecordingEstimator):
    """Same, but exposes only predict_proba (two columns)."""

    def __init__(self, kind="knn", rid_col=-1, delay=0.0, seed=0, tag="", one_column=False):
        super().__init__(kind=kind, rid_col=rid_col, delay=delay, seed=seed, tag=tag)
        self.one_column = one_column

    def __getattribute__(self, name):
        if name == "decision_function":
            raise AttributeError(name)
        return super().__getattribute__(name)

    def predict_proba(self, X):
        s = self._score(X)
        if self.one_column:
            return s.reshape(-1, 1)
        return np.column_stack([1 - s, s])


def make_estimator(learner, rid_col, delay=0.0, seed=0, tag=""):
    """learner names: linear svc invert constant noise (decision_function);
    tree knn onetree logit (+ ':proba' / ':proba1' variants expose predict_proba only)."""
    kind, _, mode = learner.partition(":")
    if mode == "proba":
        return RecordingProbaEstimator(kind=kind, rid_col=rid_col, delay=delay, seed=seed, tag=tag)
    if mode == "proba1":
        return RecordingProbaEstimator(kind=kind, rid_col=rid_col, delay=delay, seed=seed, tag=tag, one_column=True)
    return RecordingEstimator(kind=kind, rid_col=rid_col, delay=delay, seed=seed, tag=tag)
