"""Drive the real mokapot pipeline (read_pin -> brew -> assign_confidence)
through its public API with a recording estimator."""
from __future__ import annotations

from pathlib import Path

import numpy as np
import pandas as pd

from vf import core
from vf.instruments import recorder


def read_datasets(paths, max_workers=1):
    mokapot = core.import_mokapot()
    return mokapot.read_pin([Path(p) for p in paths], max_workers=max_workers)


def make_model(datasets, learner="linear", train_fdr=0.05, max_iter=3, seed=0, delay=0.0, override=False,
               direction=None, shuffle=True, tag=""):
    mokapot = core.import_mokapot()
    feats = list(datasets[0].feature_columns)
    rid_col = feats.index("rid") if "rid" in feats else -1
    est = recorder.make_estimator(learner, rid_col=rid_col, delay=delay, seed=seed, tag=tag)
    return mokapot.Model(est, scaler=recorder.PassThroughScaler(), train_fdr=train_fdr, max_iter=max_iter,
                         override=override, direction=direction, shuffle=shuffle, rng=seed)


def _scrambled_copy(path, rng, mode="permuted"):
    """Rewrite the table at `path` in place: same columns, same row count, the rows in another order and the scan numbers
    permuted independently of them (another experiment written to the same location). Returns the original bytes."""
    path = Path(path)
    raw = path.read_bytes()
    if mode == "few_decoys":
        # same rows in the same order; all but about one decoy in twelve relabelled as targets
        def relabel(vals):
            num = np.array([float(v) if str(v) not in ("True", "False") else float(str(v) == "True") for v in vals])
            tgt = vals[int(np.argmax(num))]
            dec = np.flatnonzero(num < num.max())
            flip = dec[rng.random(len(dec)) > 1 / 12]
            out = list(vals)
            for i in flip:
                out[int(i)] = tgt
            return out
        if path.suffix == ".parquet":
            df = pd.read_parquet(path)
            for col in df.columns:
                if col.lower() == "label":
                    df[col] = pd.Series(relabel(df[col].tolist()), dtype=df[col].dtype)
            df.to_parquet(path, index=False)
        else:
            lines = raw.decode().splitlines()
            head = lines[0].split("\t")
            body = [ln.split("\t") for ln in lines[1:]]
            for ci, col in enumerate(head):
                if col.lower() == "label":
                    for b, v in zip(body, relabel([b[ci] for b in body])):
                        b[ci] = v
            path.write_text("\n".join(["\t".join(head)] + ["\t".join(b) for b in body]) + "\n")
        return raw
    if path.suffix == ".parquet":
        df = pd.read_parquet(path)
        df = df.iloc[rng.permutation(len(df))].reset_index(drop=True)
        for col in df.columns:
            if col.lower() == "scannr":
                df[col] = df[col].to_numpy()[rng.permutation(len(df))]
        df.to_parquet(path, index=False)
    else:
        lines = raw.decode().splitlines()
        head = lines[0].split("\t")
        body = [ln.split("\t") for ln in lines[1:]]
        body = [body[int(j)] for j in rng.permutation(len(body))]
        for ci, col in enumerate(head):
            if col.lower() == "scannr":
                vals = [b[ci] for b in body]
                for b, j in zip(body, rng.permutation(len(body))):
                    b[ci] = vals[int(j)]
        path.write_text("\n".join(["\t".join(head)] + ["\t".join(b) for b in body]) + "\n")
    return raw


def history_prelude(paths, folds, seed, mode="permuted"):
    """Earlier use of the same interpreter and the same file locations: other data (same shape) is written to every path
    and analysed with another fold count, then the files are restored byte for byte. Nothing of the prelude is judged;
    whatever it leaves behind in the process (module-level caches, memoised attributes) is the history the observed
    run has to be independent of."""
    mokapot = core.import_mokapot()
    rng = np.random.default_rng([int(seed) & 0xFFFFFFFF, 0x415])
    saved = {}
    done = False
    try:
        for p in paths:
            saved[p] = _scrambled_copy(p, rng, mode)
        ds = read_datasets(paths, 1)
        tag = recorder.new_run_tag()
        model = make_model(ds, "linear", 0.25, 2, int(seed) % 1000, 0.0, False, tag=tag)
        mokapot.brew(ds, model=model, test_fdr=0.25, folds=int(folds) + 1, max_workers=1, rng=int(seed) % 1000 + 1)
        done = True
    except Exception as e:  # the prelude's own outcome is irrelevant (kept for the counters only)
        history_prelude.last_error = f"{type(e).__name__}: {str(e)[:80]}"
    finally:
        for p, raw in saved.items():
            Path(p).write_bytes(raw)
    return done


def run_brew(paths, learner="linear", folds=3, seed=0, test_fdr=0.05, train_fdr=0.05, max_workers=1,
             subset_max_train=None, max_iter=3, delay=0.0, override=False, read_workers=1, ensemble=False, perturb=None,
             history=None, history_mode="permuted"):
    if history is not None:
        ok = history_prelude(paths, folds, history, history_mode)
        out = run_brew(paths, learner, folds, seed, test_fdr, train_fdr, max_workers, subset_max_train, max_iter, delay,
                       override, read_workers, ensemble, perturb)
        out["history_prelude_completed"] = ok
        return out
    """Returns dict(status, call, datasets, models, scores, descs, log). With `perturb` (a seed) and several workers the
    joblib task functions run under vf.instruments.scheduler (seeded delays, completion orders recorded)."""
    if perturb is not None and max_workers > 1:
        from vf.instruments import scheduler

        with scheduler.perturb(int(perturb)) as trace:
            out = run_brew(paths, learner, folds, seed, test_fdr, train_fdr, max_workers, subset_max_train, max_iter, delay,
                           override, read_workers, ensemble, None)
        out["sched_out_of_order"] = trace.out_of_order()
        out["sched_threads"] = trace.threads()
        return out
    mokapot = core.import_mokapot()
    recorder.reset()
    out = {"status": "ok"}
    c = core.Call(read_datasets, paths, read_workers)
    if not c.ok:
        out.update(status="crash_read" if not c.explicit else "refused_read", error=c.info, sig=c.sig)
        return out
    datasets = c.value
    out["datasets"] = datasets
    out["feature_columns"] = [list(d.feature_columns) for d in datasets]
    out["spectrum_columns"] = [list(d.spectrum_columns) for d in datasets]
    tag = recorder.new_run_tag()
    model = make_model(datasets, learner, train_fdr, max_iter, seed, delay, override, tag=tag)
    c = core.Call(mokapot.brew, datasets, model=model, test_fdr=test_fdr, folds=folds, max_workers=max_workers,
                  rng=seed, subset_max_train=subset_max_train, ensemble=ensemble)
    out["log"] = recorder.snapshot(tag)
    if not c.ok:
        out.update(status="refused" if c.explicit else "crash", error=c.info, sig=c.sig)
        return out
    psms, models, scores, descs = c.value
    out.update(psms=psms, models=list(models), scores=[np.asarray(s) for s in scores], descs=list(descs))
    return out


def read_results(dest, ext_filter=None):
    """All result files in dest as DataFrames keyed by file name."""
    res = {}
    for p in sorted(Path(dest).iterdir()):
        if not p.is_file():
            continue
        if p.suffix == ".parquet":
            res[p.name] = pd.read_parquet(p)
        elif ".targets." in p.name or ".decoys." in p.name or p.name.startswith(("targets.", "decoys.")):
            res[p.name] = pd.read_csv(p, sep="\t")
    return res


def run_confidence(datasets, scores, dest, descs=None, prefixes=None, max_workers=1, **kw):
    mokapot = core.import_mokapot()
    dest = Path(dest)
    dest.mkdir(parents=True, exist_ok=True)
    if prefixes is None:
        prefixes = [None] * len(datasets)
    c = core.Call(mokapot.assign_confidence, datasets, max_workers=max_workers, scores=scores, descs=descs,
                  dest_dir=dest, prefixes=prefixes, **kw)
    return c


def brew_and_confidence(path, dest, learner="linear", folds=3, seed=0, test_fdr=0.05, train_fdr=0.05, **kw):
    paths = path if isinstance(path, (list, tuple)) else [path]
    out = run_brew(paths, learner=learner, folds=folds, seed=seed, test_fdr=test_fdr, train_fdr=train_fdr, **kw)
    if out["status"] != "ok":
        return out
    c = run_confidence(out["psms"], out["scores"], dest, descs=out["descs"], eval_fdr=test_fdr, rng=seed,
                       decoys=True)
    if not c.ok:
        out.update(status="refused_conf" if c.explicit else "crash_conf", error=c.info, sig=c.sig)
        return out
    out["files"] = read_results(dest)
    return out


class _CliSpy:
    def __init__(self):
        self.tag = None
        self.brew_result = None
        self.brew_kwargs = None

    def log(self):
        return recorder.snapshot(self.tag) if self.tag else []


import contextlib  # noqa: E402


@contextlib.contextmanager
def cli_recording(features, learner="linear"):
    """While active, the `mokapot` command-line entry point builds the recording model instead of its built-in
    PercolatorModel (same train_fdr / max_iter / direction / override / rng), and what brew() returned to it is kept.
    Nothing inside brew / Model / assign_confidence is touched: the CLI's own argument plumbing stays under test."""
    mokapot = core.import_mokapot()
    cli = core.mk("mokapot.mokapot")
    spy = _CliSpy()
    feats = list(features)
    rid_col = feats.index("rid") if "rid" in feats else -1
    orig_model, orig_brew = cli.PercolatorModel, cli.brew

    def factory(train_fdr=0.01, max_iter=10, direction=None, override=False, rng=None, **kw):
        spy.tag = recorder.new_run_tag()
        est = recorder.make_estimator(learner, rid_col=rid_col, seed=int(rng or 0), tag=spy.tag)
        return mokapot.Model(est, scaler=recorder.PassThroughScaler(), train_fdr=train_fdr, max_iter=max_iter,
                             direction=direction, override=override, rng=rng)

    def brew_spy(*a, **kw):
        spy.brew_kwargs = dict(kw)
        out = orig_brew(*a, **kw)
        spy.brew_result = out
        return out

    cli.PercolatorModel, cli.brew = factory, brew_spy
    try:
        yield spy
    finally:
        cli.PercolatorModel, cli.brew = orig_model, orig_brew
