"""Execute a shard of cases in a fresh interpreter; one JSON line per case."""
from __future__ import annotations

import faulthandler
import importlib
import json
import os
import sys
import threading
import time
import traceback
import warnings


def main():
    prop, shard_path, out_path = sys.argv[1:4]
    warnings.simplefilter("ignore")
    import logging

    logging.disable(logging.CRITICAL)
    from vf import core

    with open(shard_path) as fh:
        shard = json.load(fh)
    cases = shard["cases"]
    per_case_timeout = float(shard.get("case_timeout", 300))
    out = open(out_path, "a", buffering=1)

    # lost exceptions in worker threads are events, not noise
    lost = []
    threading.excepthook = lambda a: lost.append(
        f"{a.exc_type.__name__}: {a.exc_value}"
    )
    sys.unraisablehook = lambda u: lost.append(
        f"unraisable {type(u.exc_value).__name__}: {u.exc_value}"
    )

    try:
        core.import_mokapot()
        mod = importlib.import_module(f"vf.props.{prop.lower()}")
        if hasattr(mod, "worker_init"):
            mod.worker_init()
    except Exception as e:  # noqa: BLE001
        out.write(json.dumps({"fatal": traceback.format_exc()[-3000:], "info": core.exc_info(e)}) + "\n")
        return 3

    for case in cases:
        faulthandler.dump_traceback_later(per_case_timeout, exit=True)
        t0 = time.time()
        del lost[:]
        try:
            res = mod.run_case(case)
            if res is None:
                res = core.Result(case)
        except BaseException as e:  # noqa: BLE001
            info = core.exc_info(e)
            res = core.Result(case, status="inconclusive")
            res["harness_error"] = traceback.format_exc()[-3000:]
            res["info"] = info
            if info["in_mokapot"]:
                # the code under observation broke in a place the monitor did
                # not anticipate: that is an event about the code, not noise
                res.violate("crash", core.exc_sig(info), msg=info["msg"],
                            trace=traceback.format_exc()[-1500:])
        finally:
            faulthandler.cancel_dump_traceback_later()
        if lost:
            res["lost_exceptions"] = lost[:5]
        res["wall"] = round(time.time() - t0, 3)
        out.write(json.dumps(dict(res), default=core.json_default) + "\n")
    out.close()
    return 0


if __name__ == "__main__":
    rc = main()
    sys.stdout.flush()
    os._exit(rc)
