"""Seeded generators of PSM tables with known ground truth (no mokapot import)."""
from __future__ import annotations

from pathlib import Path

import numpy as np
import pandas as pd

AA = "ACDEFGHILMNPQSTVWY"  # no K/R so that tryptic digests stay controlled elsewhere


def pep_name(i: int, length: int = 8) -> str:
    """Injective map from integers to peptide-like strings."""
    s = []
    x = int(i)
    for _ in range(length):
        s.append(AA[x % len(AA)])
        x //= len(AA)
    return "".join(s)


def psm_table(
    rng,
    n_spectra=300,
    mult_max=3,
    n_files=1,
    key_cols=("ScanNr", "ExpMass"),
    label_enc="01",
    n_info=2,
    n_noise=2,
    ties=False,
    levels=(),
    pi1=0.5,
    pep_pool=None,
    shuffle=True,
    file_index=0,
    sep_strength=3.0,
    paired=False,
    skew=False,
    best_feature_desc=True,
    dup_scan_across_files=True,
    with_rid=True,
    share_scan=0.0,
):
    """Return a dict: df (file columns in file order), truth (is_correct per row),
    spectrum key columns, feature names.

    Every spectrum gets 1..mult_max PSMs (each target or decoy); at most one PSM per
    spectrum is 'correct' (a target, shifted on the informative features). `rid` is a
    feature column with a value unique over all files of a run (file_index*10**7+perm).
    """
    mult = rng.integers(1, mult_max + 1, size=n_spectra)
    if paired:
        mult[:] = 2
    if skew:
        mult[0] = max(mult_max, n_spectra // 2)
    n = int(mult.sum())
    spec = np.repeat(np.arange(n_spectra), mult)
    first = np.r_[True, spec[1:] != spec[:-1]]
    is_target = rng.random(n) < 0.5
    if paired:
        is_target = first.copy()  # one target + one decoy per spectrum
    correct_spec = rng.random(n_spectra) < pi1
    is_correct = first & correct_spec[spec]
    is_target = is_target | is_correct
    # make sure both labels exist
    if is_target.all():
        is_target[np.flatnonzero(~is_correct)[: max(1, n // 4)]] = False
    # spectrum key values
    scan = 1000 + spec if dup_scan_across_files else 1000 + spec + file_index * 100000
    files = (spec % n_files)
    expmass_by_spec = np.round(500 + rng.random(n_spectra) * 1500, 4)
    rt_by_spec = np.round(rng.random(n_spectra) * 7200, 3)
    if share_scan > 0 and "ExpMass" in key_cols:
        # precursor-charge hypotheses: runs of 2+ *different* spectra (different ExpMass) share file, scan number and
        # retention time, i.e. every spectrum-key column except the last
        grp = np.cumsum(np.r_[True, rng.random(n_spectra - 1) >= share_scan]) - 1
        scan = 1000 + grp if dup_scan_across_files else 1000 + grp + file_index * 100000
        files = grp % n_files
        rt_by_spec = rt_by_spec[grp]
        spec_for_scan = grp
    else:
        spec_for_scan = spec
    if "filename" in key_cols and n_files > 1 and dup_scan_across_files:
        # same scan number in different files is a different spectrum
        scan = 1000 + (spec_for_scan // n_files)
    if share_scan > 0 and "ExpMass" in key_cols:
        scan, files = scan[spec], files[spec]
    df = {}
    df["SpecId"] = [f"f{file_index}_psm{i}" for i in range(n)]
    if label_enc == "pm1":
        df["Label"] = np.where(is_target, 1, -1)
    elif label_enc == "01":
        df["Label"] = is_target.astype(int)
    else:
        df["Label"] = is_target
    df["ScanNr"] = scan
    if "filename" in key_cols:
        df["filename"] = [f"run{f}.mzML" for f in files]
    if "ret_time" in key_cols:
        df["ret_time"] = rt_by_spec[spec] if "filename" not in key_cols or True else 0
    if "ExpMass" in key_cols:
        df["ExpMass"] = expmass_by_spec[spec]
    df["CalcMass"] = np.round(expmass_by_spec[spec] + rng.normal(size=n) * 0.01, 4)
    feats = []
    for j in range(n_info):
        x = rng.normal(size=n) + sep_strength * is_correct * (1.0 if j == 0 else 0.6)
        if ties:
            x = np.round(x * 2) / 2
        if j == 0 and not best_feature_desc:
            x = -x
        df[f"info{j}"] = x
        feats.append(f"info{j}")
    for j in range(n_noise):
        x = rng.normal(size=n)
        if ties:
            x = np.round(x)
        df[f"noise{j}"] = x
        feats.append(f"noise{j}")
    if with_rid:
        df["rid"] = file_index * 10**7 + rng.permutation(n)
        feats.append("rid")
    # peptides: correct PSMs draw from a pool (repeats), nulls are mostly unique
    pool = pep_pool or max(5, n_spectra // 4)
    pep_idx = np.where(is_correct, rng.integers(0, pool, size=n), pool + file_index * 10**6 + np.arange(n))
    null_repeat = (~is_correct) & (rng.random(n) < 0.15)
    pep_idx = np.where(null_repeat, pool + file_index * 10**6 + rng.integers(0, max(1, n // 3), size=n), pep_idx)
    pep_idx = np.where(~is_target, pep_idx + 5 * 10**8, pep_idx)  # decoy peptides never equal targets
    peptides = [pep_name(i) for i in pep_idx]
    df["Peptide"] = peptides
    charge = rng.integers(2, 5, size=n)
    if "ModifiedPeptide" in levels:
        df["ModifiedPeptide"] = [p + ("[+16]" if m else "") for p, m in zip(peptides, rng.random(n) < 0.3)]
    if "Precursor" in levels:
        base = df.get("ModifiedPeptide", peptides)
        df["Precursor"] = [f"{p}/{c}" for p, c in zip(base, charge)]
    if "PeptideGroup" in levels:
        df["PeptideGroup"] = [p[:4] for p in peptides]
    df["Proteins"] = [("prot_%d" % (i % 97)) if t else ("decoy_prot_%d" % (i % 97)) for i, t in zip(pep_idx, is_target)]
    df = pd.DataFrame(df)
    truth = pd.DataFrame({"SpecId": df["SpecId"], "is_target": is_target, "is_correct": is_correct,
                          "spec": spec + file_index * 10**6})
    if shuffle:
        perm = rng.permutation(n)
        df = df.iloc[perm].reset_index(drop=True)
        truth = truth.iloc[perm].reset_index(drop=True)
    speccols = [c for c in ("filename", "ScanNr", "ret_time", "ExpMass") if c in df.columns and (c == "ScanNr" or c in key_cols)]
    return {"df": df, "truth": truth, "features": feats, "spectrum_columns": speccols,
            "levels": ["Peptide"] + [l for l in ("ModifiedPeptide", "Precursor", "PeptideGroup") if l in levels]}


def write_pin(tab, path):
    path = Path(path)
    tab["df"].to_csv(path, sep="\t", index=False)
    return path


def write_parquet(tab, path, row_group_size=None):
    import pyarrow as pa
    import pyarrow.parquet as pq

    path = Path(path)
    t = pa.Table.from_pandas(tab["df"], preserve_index=False)
    pq.write_table(t, path, row_group_size=row_group_size)
    return path


def spectrum_key(tab):
    """Tuple key per row, from the columns mokapot is expected to use."""
    df = tab["df"]
    return list(map(tuple, df[tab["spectrum_columns"]].itertuples(index=False, name=None)))
