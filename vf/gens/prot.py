"""Generator of a protein database + matching PSM/peptide tables (no mokapot import).

Proteins are concatenations of 'token' peptides (7..10 residues, no internal K/R,
ending in K) so that a tryptic digest with 0 missed cleavages yields exactly the
tokens. Decoy proteins mirror targets: every token has its interior reversed (same
composition). Anagram tokens (same composition, different proteins) are planted so
that decoy->target matching by composition has real choices.
"""
from __future__ import annotations

import numpy as np
import pandas as pd

AA = "ACDEFGHILMNPQSTVWY"


def _token(rng, L):
    while True:
        t = "".join(rng.choice(list(AA), size=L - 1))
        if t != t[::-1] and len(set(t)) >= 3:
            return t + "K"


def mirror(tok):
    return tok[:-1][::-1] + "K"


def protein_db(rng, n_prot=30, shared_frac=0.15, subset_frac=0.15, anagrams=4, prefix="decoy_", equal_frac=0.0, naming="uniprot"):
    """Returns dict: targets {name: [tokens]}, decoys {name: [tokens]}, fasta entries."""
    used = set()

    def fresh():
        while True:
            t = _token(rng, int(rng.integers(7, 11)))
            if t not in used and mirror(t) not in used:
                used.add(t)
                used.add(mirror(t))
                return t

    if naming == "gene":
        # short gene-like names; many start with letters that also occur in the decoy prefix
        lead = list("cdeoyCDEOY_") + list("abXZ")
        names = []
        seen = set()
        while len(names) < n_prot:
            nm = str(rng.choice(lead)) + str(rng.choice(lead)) + str(rng.choice(list("CDEY12"))) + str(int(rng.integers(1, 9)))
            if nm not in seen and not nm.startswith(prefix):
                seen.add(nm)
                names.append(nm)
    else:
        names = [f"sp|T{i:03d}|PROT{i}" for i in range(n_prot)]
    prots = {}
    for nm in names:
        prots[nm] = [fresh() for _ in range(int(rng.integers(2, 7)))]
    # shared peptides between random protein pairs
    for _ in range(int(n_prot * shared_frac)):
        a, b = rng.choice(n_prot, size=2, replace=False)
        prots[names[b]].append(prots[names[a]][0])
    # subset proteins
    for _ in range(int(n_prot * subset_frac)):
        a, b = rng.choice(n_prot, size=2, replace=False)
        prots[names[b]] = list(prots[names[a]][: max(1, len(prots[names[a]]) - 1)])
    # proteins with identical peptide sets (e.g. isoforms that differ outside the detectable peptides)
    for _ in range(int(n_prot * equal_frac)):
        a, b = rng.choice(n_prot, size=2, replace=False)
        prots[names[b]] = list(prots[names[a]])
    # anagram tokens in different proteins (same composition, both unique)
    for _ in range(anagrams):
        a, b = rng.choice(n_prot, size=2, replace=False)
        t = fresh()
        body = list(t[:-1])
        for _try in range(20):
            perm = "".join(rng.permutation(body)) + "K"
            if perm != t and perm != mirror(t) and perm not in used:
                break
        used.add(perm)
        used.add(mirror(perm))
        prots[names[a]].append(t)
        prots[names[b]].append(perm)
    decoys = {prefix + nm: [mirror(t) for t in toks] for nm, toks in prots.items()}
    return {"targets": prots, "decoys": decoys, "prefix": prefix}


def write_fasta(db, path, with_decoys=True, rng=None, order=None):
    entries = [(nm, "".join(toks)) for nm, toks in db["targets"].items()]
    if with_decoys:
        entries += [(nm, "".join(toks)) for nm, toks in db["decoys"].items()]
    if order is not None:
        entries = [entries[i] for i in order]
    with open(path, "w") as fh:
        for nm, seq in entries:
            fh.write(f">{nm} description\n")
            for i in range(0, len(seq), 60):
                fh.write(seq[i:i + 60] + "\n")
    return path


def decorate(rng, tok, style):
    """Modification / flanking notations that must be ignored when mapping to proteins."""
    if style == "plain":
        return tok
    if style == "flank":
        return f"K.{tok}.A"
    if style == "flank_dash":
        return f"-.{tok}.-"
    i = int(rng.integers(1, len(tok)))
    if style == "mod_sq":
        return tok[:i] + "[+15.99]" + tok[i:]
    if style == "mod_par":
        return tok[:i] + "(ox)" + tok[i:]
    if style == "mod_flank":
        return "R." + tok[:i] + "[+57.02]" + tok[i:] + ".G"
    if style == "mod_two":
        j = int(rng.integers(1, len(tok)))
        a, b = sorted((i, j)) if i != j else (i, i)
        return tok[:a] + "[+15.99]" + tok[a:b] + "(ph)" + tok[b:]
    if style == "lower":
        return tok[:i] + "m" + tok[i:]  # lower-case letter marks a modification
    return tok


STYLES = ["plain", "flank", "flank_dash", "mod_sq", "mod_par", "mod_flank", "mod_two", "lower"]


def psm_table_for_db(rng, db, n_spectra=400, styles=("plain",), unknown_frac=0.0, sep=3.0, file_index=0, ties=False):
    """PSM table (PIN columns) whose peptides come from the database tokens."""
    ttoks = sorted({t for toks in db["targets"].values() for t in toks})
    dtoks = sorted({t for toks in db["decoys"].values() for t in toks})
    rows = []
    for s in range(n_spectra):
        m = int(rng.integers(1, 3))
        for j in range(m):
            is_t = bool(rng.random() < 0.55)
            tok = str(rng.choice(ttoks if is_t else dtoks))
            if rng.random() < unknown_frac:
                tok = _token(rng, 8)
            correct = is_t and j == 0 and rng.random() < 0.6
            rows.append((s, is_t, tok, correct))
    n = len(rows)
    df = pd.DataFrame({
        "SpecId": [f"f{file_index}_psm{i}" for i in range(n)],
        "Label": [1 if r[1] else -1 for r in rows],
        "ScanNr": [1000 + r[0] for r in rows],
        "ExpMass": [round(800 + r[0] * 1.37, 4) for r in rows],
        "info0": rng.normal(size=n) + sep * np.array([r[3] for r in rows]),
        "info1": rng.normal(size=n) + 0.5 * sep * np.array([r[3] for r in rows]),
        "noise0": rng.normal(size=n),
        "rid": file_index * 10**7 + rng.permutation(n),
        "Peptide": [decorate(rng, r[2], str(rng.choice(list(styles)))) for r in rows],
        "Proteins": ["x" for _ in rows],
    })
    if ties:
        # coarse features: learned scores tie often, so that seeded tie-breaking is exercised
        for c in ("info0", "info1", "noise0"):
            df[c] = np.round(df[c])
    truth = pd.DataFrame({"SpecId": df["SpecId"], "is_target": [r[1] for r in rows], "token": [r[2] for r in rows],
                          "is_correct": [r[3] for r in rows], "spec": [r[0] for r in rows]})
    perm = rng.permutation(n)
    df = df.iloc[perm].reset_index(drop=True)
    truth = truth.iloc[perm].reset_index(drop=True)
    return {"df": df, "truth": truth, "features": ["info0", "info1", "noise0", "rid"],
            "spectrum_columns": ["ScanNr", "ExpMass"], "levels": ["Peptide"]}
