"""C13 - chunked table reading equals whole reading; writers lose and reorder nothing.

Differential monitor on every TabularDataReader / TabularDataWriter
implementation: generated tables, all chunk sizes 1..N+1, column subsets in
arbitrary order, Parquet row-group sizes, buffered writers with every buffer
kind and arbitrary append sequences.
"""
from __future__ import annotations

from pathlib import Path

import numpy as np
import pandas as pd

from vf import core
from vf.core import Result

LEVEL = "exploration"
RULE = (
    "readers: generated tables (0..60 rows; int/float/bool/plain-string columns) read through CSV, Parquet "
    "(random row-group size), DataFrame, column-mapped, joined (2-3 sources) and computed-column readers with "
    "every chunk size 1..N+1 and a random column subset/order; writers: CSV, Parquet, buffered (buffer 2..N, "
    "DataFrame/Dicts/Records) with random append sequences incl. empty appends, context-manager and explicit "
    "finalize. Non-trivial = N>=2 rows and (readers) chunk size < N, (writers) >=2 appends; distinct = "
    "(reader kind, table hash, chunk size, columns) / (writer kind, table hash, append split, buffer)."
    " Delimited text uses the default tab or an explicit sep (, ; |) via from_path / CSVFileReader / CSVFileWriter; an unrelated reader (writer) with another delimiter is created and used while the one under test is alive."
    " Half of the delimited files write numbers the short way (%.17g: 2 instead of 2.0)."
    " 30% of the writer cases run a second initialise / append / finalise session on the same writer object."
    " 40% of the remaining writer cases also use the one-shot write() of a mask-selected / re-ordered frame, read back whole and in chunks."
    " 40% of the DataFrame-buffer cases refill one scratch frame in place for equal-sized batches."
)
ASSUMPTIONS = [
    "strings are plain tokens (no NA-like / numeric-looking text: type inference of delimited text is outside the statement)",
    "floats are dyadic rationals (k/64) so that pandas' default fast float parser round-trips them exactly",
    "ComputedTabularDataReader is used with explicit column lists (columns=None raises TypeCheckError in both methods; recorded, not judged)",
]


def gen_table(rng, nmax=60, allow_empty=True):
    n = int(rng.choice([0, 1, 2, 3, 7, 20, nmax])) if allow_empty else int(rng.choice([1, 2, 3, 7, 20, nmax]))
    ncol = int(rng.integers(2, 7))
    cols = {}
    kinds = []
    for j in range(ncol):
        kind = str(rng.choice(["int", "float", "bool", "str"]))
        kinds.append(kind)
        name = f"c{j}_{kind}"
        if kind == "int":
            cols[name] = rng.integers(-1000, 1000, size=n).astype(np.int64)
        elif kind == "float":
            cols[name] = rng.integers(-64000, 64000, size=n) / 64.0  # dyadic: exact under any float parser
        elif kind == "bool":
            cols[name] = rng.random(n) < 0.5
        else:
            cols[name] = np.array(["s%dx%s" % (i, "abcdefg"[int(rng.integers(0, 7))]) for i in range(n)], dtype=object)
    return pd.DataFrame(cols)


def _col_equal(a, b):
    a = list(a)
    b = list(b)
    if len(a) != len(b):
        return False
    for x, y in zip(a, b):
        if isinstance(x, (float, np.floating)) or isinstance(y, (float, np.floating)):
            if not (float(x) == float(y)):
                return False
        elif isinstance(x, (bool, np.bool_)) or isinstance(y, (bool, np.bool_)):
            if bool(x) != bool(y) or isinstance(x, str) or isinstance(y, str):
                return False
        elif isinstance(x, (int, np.integer)) and isinstance(y, (int, np.integer)):
            if int(x) != int(y):
                return False
        else:
            if str(x) != str(y) or type(x) is not type(y) and not (isinstance(x, str) and isinstance(y, str)):
                return False
    return True


def frame_diff(got, exp, check_index=True):
    """None if equal else a short description."""
    if list(got.columns) != list(exp.columns):
        return f"columns {list(got.columns)} != {list(exp.columns)}"
    if len(got) != len(exp):
        return f"rows {len(got)} != {len(exp)}"
    for c in exp.columns:
        if not _col_equal(got[c].tolist(), exp[c].tolist()):
            return f"values differ in column {c}: {got[c].tolist()[:6]} vs {exp[c].tolist()[:6]}"
    if check_index and len(exp) and list(got.index) != list(range(len(exp))):
        return f"row index does not continue across chunks: {list(got.index)[:12]}"
    return None


def plan(seed, tier):
    n = 32 if tier == "quick" else 1600
    cases = [{"class": "readers", "index": i, "reps": 10, "cost": 2} for i in range(n)]
    cases += [{"class": "writers", "index": i, "reps": 16, "cost": 2} for i in range(n)]
    cases.append({"class": "probe", "cost": 1})
    return cases


MANDATORY_CLASSES = ["readers", "writers"]


def _make_reader(kind, df, d, rng):
    """Return (reader, expected whole frame in reader's column naming)."""
    td = core.mk("mokapot.tabular_data")
    st = core.mk("mokapot.streaming")
    import pyarrow as pa
    import pyarrow.parquet as pq

    if kind == "csv":
        # delimiter: the default tab, or another one handed to the reader explicitly (documented `sep` argument)
        sep = str(rng.choice(["\t", "\t", ",", ";", "|"]))
        p = Path(d) / ("t.csv" if sep == "\t" or rng.random() < 0.5 else "t.txt")
        # half of the files write numbers the short way (2 instead of 2.0): a float column may then look integer-typed
        # in its first rows
        df.to_csv(p, sep=sep, index=False, **({"float_format": "%.17g"} if rng.random() < 0.5 else {}))
        if sep == "\t":
            return td.TabularDataReader.from_path(p), df
        return (td.TabularDataReader.from_path(p, sep=sep) if rng.random() < 0.5 else td.CSVFileReader(p, sep=sep)), df
    if kind == "parquet":
        p = Path(d) / "t.parquet"
        pq.write_table(pa.Table.from_pandas(df, preserve_index=False), p,
                       row_group_size=int(rng.integers(1, len(df) + 2)))
        return td.TabularDataReader.from_path(p), df
    if kind == "df":
        return td.DataFrameReader(df.copy()), df
    if kind == "mapped":
        inner_kind = str(rng.choice(["csv", "parquet", "df"]))
        r, e = _make_reader(inner_kind, df, d, rng)
        cmap = {c: c.upper() + "_m" for c in list(df.columns)[::2]}
        return td.ColumnMappedReader(r, cmap), e.rename(columns=cmap)
    if kind == "joined":
        k = int(rng.integers(2, 4))
        cols = list(df.columns)
        cuts = sorted(rng.choice(np.arange(1, len(cols)), size=min(k - 1, len(cols) - 1), replace=False).tolist())
        parts = [cols[a:b] for a, b in zip([0] + cuts, cuts + [len(cols)])]
        readers = []
        for j, pc in enumerate(parts):
            sub = df[pc]
            ik = str(rng.choice(["csv", "parquet", "df"]))
            dd = Path(d) / f"j{j}"
            dd.mkdir(exist_ok=True)
            readers.append(_make_reader(ik, sub, dd, rng)[0])
        return st.JoinedTabularDataReader(readers), df
    if kind == "computed":
        inner_kind = str(rng.choice(["csv", "parquet", "df"]))
        r, e = _make_reader(inner_kind, df, d, rng)
        e = e.copy()
        e["computed"] = np.arange(len(e)) * 0 + len(e.columns)

        def fn(x):
            return np.full(len(x), len(e.columns) - 1)
        return st.ComputedTabularDataReader(r, "computed", np.dtype("int64"), fn), e
    raise ValueError(kind)


READER_KINDS = ["csv", "parquet", "df", "mapped", "joined", "computed"]


def run_readers(case):
    td = core.mk("mokapot.tabular_data")
    rng = core.seed_seq(case["seed"], "C13", "readers", case["index"])
    res = Result(case)
    evals = nt = 0
    for rep in range(case["reps"]):
        kind = READER_KINDS[(case["index"] + rep) % len(READER_KINDS)]
        df = gen_table(rng)
        n = len(df)
        with core.scratch("c13") as d:
            try:
                reader, exp_all = _make_reader(kind, df, d, rng)
            except Exception as e:  # noqa: BLE001
                info = core.exc_info(e)
                if info["in_mokapot"]:
                    res.violate("crash", core.exc_sig(info) + "/make_" + kind, msg=info["msg"])
                    continue
                raise
            # an unrelated reader with another delimiter is created (and used) while the reader under test is alive
            by = Path(d) / "bystander.csv"
            by_sep = str(rng.choice([",", ";", "\t"]))
            pd.DataFrame({"u": [1, 2], "v": ["a", "b"]}).to_csv(by, sep=by_sep, index=False)
            bystander = td.CSVFileReader(by, sep=by_sep)
            core.Call(bystander.read)
            allcols = list(exp_all.columns)
            subsets = [None, allcols]
            k = int(rng.integers(1, len(allcols) + 1))
            subsets.append([str(c) for c in rng.permutation(allcols)[:k]])
            if kind == "computed":
                subsets = [s for s in subsets if s is not None]
                subsets.append(["computed"])                      # only the computed column
                subsets.append(["computed", allcols[0]])          # computed column first
            for cols in subsets:
                exp = exp_all if cols is None else exp_all[cols]
                c = core.Call(reader.read, columns=cols)
                evals += 1
                extra = dict(reader=kind, n=n, columns=cols)
                if not c.ok:
                    res.violate("crash", c.sig + "/read/" + kind, msg=c.info["msg"], **extra)
                    continue
                whole = c.value.reset_index(drop=True)
                diff = frame_diff(whole, exp.reset_index(drop=True), check_index=False)
                if diff and n > 0:
                    res.violate("whole_read", kind, diff=diff, **extra)
                    continue
                for cs in range(1, n + 2):
                    c = core.Call(lambda: list(reader.get_chunked_data_iterator(chunk_size=cs, columns=cols)))
                    evals += 1
                    extra = dict(reader=kind, n=n, columns=cols, chunk_size=cs)
                    if not c.ok:
                        res.violate("crash", c.sig + "/chunked/" + kind, msg=c.info["msg"], **extra)
                        break
                    chunks = c.value
                    if any(len(ch) > cs for ch in chunks):
                        res.violate("chunk_too_large", kind, sizes=[len(ch) for ch in chunks], **extra)
                        break
                    if n == 0:
                        if sum(len(ch) for ch in chunks) != 0:
                            res.violate("chunked_read", kind, diff="rows from empty table", **extra)
                        continue
                    if not chunks:
                        res.violate("chunked_read", kind, diff="no chunks", **extra)
                        break
                    cat = pd.concat(chunks)
                    diff = frame_diff(cat, whole, check_index=True)
                    if diff:
                        res.violate("chunked_read", kind, diff=diff, sizes=[len(ch) for ch in chunks][:12], **extra)
                        break
                    if cs < n and n >= 2:
                        nt += 1
        if rep == 0:
            res["sample"] = {"reader": kind, "n": n, "columns": list(df.columns)}
    res["evals"] = evals
    res["distinct_n"] = nt
    res["nontrivial"] = nt > 0
    return res


def _np_types(df):
    import pyarrow as pa

    out = []
    for c in df.columns:
        k = c.split("_")[1]
        out.append({"int": pa.int64(), "float": pa.float64(), "bool": pa.bool_(), "str": pa.string()}[k])
    return out


def run_writers(case):
    td = core.mk("mokapot.tabular_data")
    rng = core.seed_seq(case["seed"], "C13", "writers", case["index"])
    res = Result(case)
    evals = nt = 0
    for rep in range(case["reps"]):
        df = gen_table(rng, nmax=40)
        n = len(df)
        suffix = [".csv", ".parquet"][rep % 2]
        buf = int(rng.choice([0, 2, 3, int(rng.integers(2, max(3, n + 1))), n + 5]))
        btype = [td.TableType.DataFrame, td.TableType.Dicts, td.TableType.Records][(rep // 2) % 3]
        if buf <= 1:
            btype = td.TableType.DataFrame
        # split into appends (possibly empty ones)
        k = int(rng.integers(1, 6))
        cuts = sorted(rng.integers(0, n + 1, size=k - 1).tolist())
        pieces = [df.iloc[a:b] for a, b in zip([0] + cuts, cuts + [n])]
        ctx = bool(rng.integers(0, 2))
        reuse_frame = bool(btype == td.TableType.DataFrame and rng.random() < 0.4)
        if reuse_frame and n >= 2:
            # equal-sized batches smaller than the buffer, so that a batch waits in the buffer while the next is prepared
            m = int(rng.integers(1, max(2, min(n, max(2, buf)) // 2 + 1)))
            pieces = [df.iloc[a:a + m] for a in range(0, n, m)]
        wsep = str(rng.choice(["\t", "\t", ",", ";"]))
        extra = dict(suffix=suffix, n=n, buffer=buf, buffer_type=btype.value, appends=[len(p) for p in pieces], ctx=ctx, sep=wsep,
                     reuse_frame=reuse_frame)
        with core.scratch("c13w") as d:
            path = Path(d) / f"out{suffix}"

            def go():
                kw = {}
                if suffix == ".csv" and wsep != "\t":
                    kw["sep"] = wsep
                w = td.TabularDataWriter.from_suffix(path, list(df.columns), buffer_size=buf, buffer_type=btype,
                                                     column_types=_np_types(df), **kw)
                # another writer / reader pair with another delimiter is alive at the same time
                other = td.CSVFileWriter(Path(d) / "other.csv", ["u"], sep="," if wsep != "," else ";")
                other.initialize()
                other.append_data(pd.DataFrame({"u": [1]}))
                other.finalize()
                other.get_associated_reader().read()

                reuse = []  # some callers collect every batch in one list object that they clear and refill
                reuse_list = bool(rng.integers(0, 2))

                def feed():
                    scratch = None
                    for p in pieces:
                        if btype == td.TableType.DataFrame and reuse_frame:
                            # a caller that keeps one scratch frame and refills it in place for every batch of the
                            # same size (what was appended must not change afterwards)
                            q = p.reset_index(drop=True)
                            if scratch is None or len(scratch) != len(q):
                                scratch = q.copy()
                            else:
                                for c_ in q.columns:
                                    scratch[c_] = q[c_].values
                            w.append_data(scratch)
                        elif btype == td.TableType.DataFrame:
                            w.append_data(p.reset_index(drop=True))
                        elif btype == td.TableType.Dicts:
                            recs = p.to_dict(orient="records")
                            if len(recs) == 1 and rng.integers(0, 2):
                                w.append_data(recs[0])
                            elif recs and reuse_list:
                                reuse.clear()
                                reuse.extend(recs)
                                w.append_data(reuse)
                            elif recs:
                                w.append_data(recs)
                        else:
                            ra = p.to_records(index=False)
                            for i in range(len(ra)):
                                w.append_data(ra[i])
                if ctx:
                    with w:
                        feed()
                else:
                    w.initialize()
                    feed()
                    w.finalize()
                first = w.get_associated_reader().read()
                if one_shot:
                    # the writer's one-shot write() of a whole frame - as callers hand it over: rows selected by a mask
                    # or re-ordered keep their old index labels, which are no part of the table
                    sel = df.iloc[one_shot_order]
                    w2 = td.TabularDataWriter.from_suffix(Path(d) / f"shot{suffix}", list(df.columns), column_types=_np_types(df), **kw)
                    w2.write(sel)
                    shot = w2.get_associated_reader()
                    return first, None, (sel.reset_index(drop=True), shot.read(), list(shot.get_chunked_data_iterator(chunk_size=max(1, len(sel) // 2 or 1))),
                                         shot.get_column_names())
                if second_session:
                    # the same writer object used for a second initialise / append / finalise session: the file then
                    # holds exactly the rows of that session
                    w.initialize()
                    feed()
                    w.finalize()
                    second = w.get_associated_reader().read()
                    return first, second, None
                return first, None, None
            second_session = bool(rng.random() < 0.3)
            extra["second_session"] = second_session
            one_shot = bool(not second_session and n >= 2 and rng.random() < 0.4)
            one_shot_order = np.sort(rng.choice(n, size=max(1, n // 2), replace=False))[::int(rng.choice([1, -1]))] if one_shot else None
            extra["one_shot_write"] = one_shot
            c = core.Call(go)
            evals += 1
            if not c.ok:
                res.violate("crash", c.sig + f"/{suffix}/{btype.value}", msg=c.info["msg"], **extra)
                continue
            back, again, shot = c.value
            back = back.reset_index(drop=True)
            if shot is not None:
                res.count("one_shot_writes")
                want, whole, chunks, names = shot
                bad3 = None
                if names != list(df.columns):
                    bad3 = f"column names {names} != {list(df.columns)}"
                elif frame_diff(whole, want, check_index=True):
                    bad3 = "whole read: " + str(frame_diff(whole, want, check_index=True))
                elif chunks and frame_diff(pd.concat(chunks), want, check_index=True):
                    bad3 = "chunked read: " + str(frame_diff(pd.concat(chunks), want, check_index=True))
                if bad3:
                    res.violate("write_readback", f"{suffix}/one_shot_write", diff=bad3, **extra)
                    continue
            if again is not None:
                res.count("second_sessions")
                again = again.reset_index(drop=True)
                bad2 = (len(again) != 0) if n == 0 else frame_diff(again, df.reset_index(drop=True), check_index=False)
                if bad2:
                    res.violate("write_readback", f"{suffix}/{btype.value}/second_session", diff=str(bad2), **extra)
                    continue
            if n == 0:
                if len(back) != 0 or list(back.columns) != list(df.columns):
                    res.violate("write_readback", suffix, diff=f"empty table came back as {back.shape}", **extra)
                continue
            diff = frame_diff(back, df.reset_index(drop=True), check_index=False)
            if diff:
                res.violate("write_readback", f"{suffix}/{btype.value}", diff=diff, **extra)
            if n >= 2 and sum(1 for p in pieces if len(p)) >= 2:
                nt += 1
        if rep == 0:
            res["sample"] = extra
    res["evals"] = evals
    res["distinct_n"] = nt
    res["nontrivial"] = nt > 0
    return res


def run_probe(case):
    st = core.mk("mokapot.streaming")
    td = core.mk("mokapot.tabular_data")
    res = Result(case, status="probe")
    df = pd.DataFrame({"a": [1, 2]})
    r = st.ComputedTabularDataReader(td.DataFrameReader(df), "b", np.dtype("int64"), lambda x: x["a"] * 2)
    c = core.Call(r.read)
    res["sample"] = {"computed_reader_columns_None": "ok" if c.ok else c.sig}
    return res


def run_case(case):
    return {"readers": run_readers, "writers": run_writers, "probe": run_probe}[case["class"]](case)
