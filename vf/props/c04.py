"""C04 - reported q-values control the FDR end to end, whatever the model capacity.

Statistical monitor with ground truth: simulated datasets in which incorrect targets
are exchangeable with decoys by construction are pushed through the full
brew -> assign_confidence pipeline; the false discovery proportion among targets
accepted at q <= alpha is read from the result files joined with the truth. Cells
(design x learner x folds) are judged on the mean FDP over R replicates with a 6-sigma
rule; the recording estimator runs underneath every replicate and feeds the C02
checker, so a train/test leak is also reported with its exact witness.
"""
from __future__ import annotations

import numpy as np
import pandas as pd

from vf import core
from vf.core import Result
from vf.gens import psm
from vf.instruments import pipeline
from vf.oracles import cv

LEVEL = "exploration"
RULE = (
    "cells = design {paired (one target + one decoy per spectrum, mokapot's own competition), unpaired "
    "(post-competition model)} x learner {svc, tree (ExtraTrees, no bootstrap), knn (distance weighted), linear} x "
    "folds 2..5, pi1 in {0.2,0.4,0.6}, 300..1500 spectra, rows shuffled, every second replicate with subset_max_train = 55% of the table, every third with the prediction streamed in chunks of 37% of the table; per replicate FDP at alpha in "
    "{0.01,0.05,0.1} at PSM and peptide level. small: tiny tables (5..15 true positives) scored directly through "
    "assign_confidence. coarse: 800 paired spectra with scores rounded to a grid {0.75, 1.5} and clipped to 3 or 5 levels (20..40% of the "
    "null spectra tie their target and decoy exactly), pi1 {0.15, 0.4}, straight through assign_confidence, 20 alphas 0.05..0.71, "
    "judged without the learning slack (mean(FDP) - alpha > 0.002 + 6*SE). A cell is VIOLATED iff mean(FDP) - alpha > 0.25*alpha + 0.005 + 6*SE, HELD iff mean(FDP) <= "
    "alpha + 3*SE, otherwise inconclusive (reported, does not fail). Non-trivial = replicate with >= 1 accepted "
    "target at alpha = 0.1; distinct = replicate seeds."
    " Every fifth pipeline replicate models two collections of different size jointly (larger first or last); each collection is an observation."
    " sorted_ties / decoys_first_ties: the coarse design with the file sorted by label (all targets first / all decoys first) and the confidence stage split so that a spectrum's target and decoy sit in different chunks."
    " reuse: models saved by one interpreter session re-score the same collection (string-valued key member) in another session with another hash seed; FDP judged as one cell."
    " targets_first_one_chunk: the label-sorted coarse design in a single confidence chunk."
)
ASSUMPTIONS = [
    "statistical decision: exchangeability holds by construction of the simulator only; false-alarm probability per cell < 1e-8 under the property",
    "the 0.25*alpha slack covers the known small finite-sample liberal bias of cross-validated semi-supervised rescoring",
    "coarse cells involve no learning: the (D+1)/T estimate controls E[FDP] exactly when null targets and decoys are exchangeable, so no slack is granted there; SE floor 0.2*alpha/sqrt(R) (0.5 elsewhere)",
    "learners emitting fewer than three distinct values are excluded (the default PEP estimator refuses them)",
]
CASE_TIMEOUT = 1200
ALPHAS = [0.01, 0.05, 0.1]
LEARNERS = ["svc", "tree:proba", "knn:proba", "linear"]


def cells(tier):
    out = []
    k = 0
    for design in ("paired", "unpaired"):
        for learner in LEARNERS:
            for folds in ([3] if tier == "quick" else [2, 3, 5]):
                if tier == "quick" and (k % 4 == 3):
                    k += 1
                    continue
                out.append({"design": design, "learner": learner, "folds": folds})
                k += 1
    return out


def plan(seed, tier):
    cases = []
    R = 24 if tier == "quick" else 60
    per = 4
    for ci, cell in enumerate(cells(tier)):
        for b in range(0, R, per):
            cases.append({"class": "pipeline", "cell": ci, **cell, "reps": list(range(b, min(R, b + per))), "cost": 8})
    ns = 16 if tier == "quick" else 80
    for i in range(ns):
        cases.append({"class": "small", "index": i, "reps": 40, "cost": 6})
    for i in range(16 if tier == "quick" else 96):
        cases.append({"class": "coarse", "index": i, "top": [1, 2][i % 2], "grid": [0.75, 1.5][(i // 2) % 2],
                      "pi1": [0.15, 0.4][(i // 4) % 2], "reps": 100, "cost": 8})
    # label-sorted file (all targets before all decoys, as when target and decoy search results are concatenated),
    # exactly tied target / decoy scores, and the confidence stage split so that a spectrum's target and decoy sit in
    # different chunks
    for i in range(4 if tier == "quick" else 24):
        cases.append({"class": "sorted_ties", "index": i, "top": 1, "grid": [0.75, 1.5][i % 2], "pi1": [0.15, 0.4][i % 2],
                      "order": "targets_first", "reps": 60, "cost": 8})
    # saved models re-score the same collection in another interpreter session (documented: brew(model=[trained
    # models])): each model must again meet only the PSMs of its own held-out fold, also when the spectrum key has a
    # string-valued member and the sessions run with different hash seeds
    for i in range(6 if tier == "quick" else 30):
        cases.append({"class": "reuse", "index": i, "learner": ["tree:proba", "knn:proba"][i % 2], "folds": 3, "reps": [0, 1, 2, 3], "cost": 30})
    # targets first, everything in one chunk: ties are then ordered by the per-chunk sort alone
    for i in range(4 if tier == "quick" else 24):
        cases.append({"class": "targets_first_one_chunk", "index": i, "top": 1, "grid": [0.75, 1.5][i % 2], "pi1": [0.15, 0.4][i % 2],
                      "order": "targets_first", "one_chunk": True, "reps": 60, "cost": 8})
    # the mirrored layout (all decoys first): ties then go to the decoys, which is conservative and must stay so
    for i in range(4 if tier == "quick" else 24):
        cases.append({"class": "decoys_first_ties", "index": i, "top": 1, "grid": [0.75, 1.5][i % 2], "pi1": [0.15, 0.4][i % 2],
                      "order": "decoys_first", "reps": 60, "cost": 8})
    return cases


MANDATORY_CLASSES = ["pipeline", "small", "coarse", "sorted_ties", "decoys_first_ties", "targets_first_one_chunk", "reuse"]


def simulate(rng, design, n_spectra, pi1, file_index=0, n_info=None, sep=None):
    n_info = int(rng.integers(1, 4)) if n_info is None else n_info
    sep = float(rng.choice([2.0, 3.0])) if sep is None else sep
    return psm.psm_table(rng, n_spectra=n_spectra, pi1=pi1, key_cols=("ExpMass",), n_info=n_info, n_noise=2, sep_strength=sep,
                         pep_pool=max(5, n_spectra // 6), file_index=file_index,
                         **(dict(paired=True) if design == "paired" else dict(mult_max=1)))


ALPHAS_COARSE = [round(0.05 * 1.15 ** k, 4) for k in range(20)]   # 0.05 .. 0.71


def fdp_from_files(files, truth, level, alphas=None):
    t = files.get(f"targets.{level}")
    if t is None:
        return None
    correct = dict(zip(truth["SpecId"].astype(str), truth["is_correct"]))
    qcol = [c for c in t.columns if c.replace("_", "-") == "q-value"][0]
    ok = np.array([bool(correct[i]) for i in t["PSMId"].astype(str)])
    q = t[qcol].values.astype(float)
    out = {}
    for a in (alphas or ALPHAS):
        acc = q <= a
        out[a] = (int((acc & ~ok).sum()), int(acc.sum()))
    return out


def run_pipeline(case):
    res = Result(case, key=[f"{case['seed']}/{case['cell']}/{r}" for r in case["reps"]])
    obs = []
    nt = 0
    for r in case["reps"]:
        rng = core.seed_seq(case["seed"], "C04", case["cell"], r)
        n_spectra = int(rng.choice([300, 600, 1000, 1500]))
        pi1 = float(rng.choice([0.2, 0.4, 0.6]))
        with core.scratch("c04") as d:
            # every fifth replicate models two collections jointly (different spectra, so different fold splits)
            nfiles = 2 if r % 5 == 3 else 1
            n_info, sep = int(rng.integers(1, 4)), float(rng.choice([2.0, 3.0]))
            fsizes = [n_spectra, max(200, n_spectra // 2)][::-1 if r % 10 == 8 else 1]   # larger file first or last
            tabs = [simulate(rng, case["design"], fsizes[fi], pi1, file_index=fi, n_info=n_info, sep=sep) for fi in range(nfiles)]
            paths = [psm.write_pin(t, d / f"t{fi}.pin") for fi, t in enumerate(tabs)]
            nrows = sum(len(t["df"]) for t in tabs)
            # every second replicate trains on a capped subset (another route by which held-out rows can leak)
            cap = int(0.55 * nrows) if r % 2 else None
            # every third replicate predicts in several chunks with a short last one
            sizes = {"CHUNK_SIZE_ROWS_PREDICTION": int(0.37 * len(tabs[0]["df"]))} if r % 3 == 2 else {}
            with core.chunk_sizes(**sizes):
                # every fourth replicate trains / predicts with several workers under a perturbed task schedule
                w = 3 if r % 4 == 1 else 1
                out = pipeline.run_brew(paths, learner=case["learner"], folds=case["folds"], seed=int(rng.integers(1 << 30)),
                                        test_fdr=0.05, train_fdr=0.05, max_iter=3, subset_max_train=cap, max_workers=w,
                                        delay=0.003 if w > 1 else 0.0, perturb=int(rng.integers(1 << 30)))
                res.count("task_kinds_finished_out_of_order", out.get("sched_out_of_order", 0))
            res.count("replicates")
            if nfiles > 1:
                res.count("two_collection_replicates")
            if out["status"].startswith("crash"):
                res.violate("crash", out["sig"], msg=out["error"]["msg"], design=case["design"], learner=case["learner"])
                continue
            if out["status"] != "ok":
                res.count("refused_replicates")
                continue
            bad, facts = cv.analyze(out["log"], tabs, case["folds"], cap=cap)
            for kind, detail in bad[:2]:
                res.violate("cv_" + kind, case["learner"], detail=detail, design=case["design"], folds=case["folds"])
            prefixes = [f"c{fi}" for fi in range(nfiles)] if nfiles > 1 else None
            c = pipeline.run_confidence(out["psms"], out["scores"], d / "out", descs=out["descs"], decoys=True, rng=1,
                                        peps_algorithm="kde_nnls", prefixes=prefixes)
            if not c.ok:
                if c.explicit:
                    res.count("refused_replicates")
                else:
                    res.count("confidence_failed_replicates")
                    res.count("confidence_failed:" + c.sig)
                continue
            allfiles = pipeline.read_results(d / "out")
            for fi, tab in enumerate(tabs):
                pre = f"c{fi}." if nfiles > 1 else ""
                files = {k[len(pre):]: v for k, v in allfiles.items() if k.startswith(pre)}
                rec = {"rep": r, "n": n_spectra, "pi1": pi1, "file": fi, "nfiles": nfiles}
                for lvl in ("psms", "peptides"):
                    f = fdp_from_files(files, tab["truth"], lvl)
                    if f:
                        rec[lvl] = {str(a): v for a, v in f.items()}
                obs.append(rec)
                if rec.get("psms", {}).get("0.1", (0, 0))[1] > 0:
                    nt += 1
    res["obs"] = obs
    res["evals"] = len(case["reps"])
    res["nontrivial"] = nt > 0
    if obs:
        res["sample"] = {"cell": {k: case[k] for k in ("design", "learner", "folds")}, "first_replicate": obs[0]}
    return res


def run_small(case):
    rng = core.seed_seq(case["seed"], "C04", "small", case["index"])
    res = Result(case, key=f"small/{case['seed']}/{case['index']}")
    obs = []
    nt = 0
    with core.scratch("c04s") as d:
        for r in range(case["reps"]):
            n_true = int(rng.integers(5, 16))
            n_null = int(rng.integers(10, 60))
            is_corr = np.r_[np.ones(n_true, bool), np.zeros(n_null, bool)]
            is_t = is_corr | (rng.random(n_true + n_null) < 0.5)
            n = len(is_t)
            scores = rng.normal(size=n) + 4.0 * is_corr
            df = pd.DataFrame({"SpecId": [f"p{i}" for i in range(n)], "Label": is_t.astype(int), "ScanNr": np.arange(n) + 1,
                               "ExpMass": np.round(500 + np.arange(n) * 1.1, 3), "f": scores,
                               "Peptide": [psm.pep_name(i + (0 if t else 10**6)) for i, t in enumerate(is_t)], "Proteins": "x"})
            perm = rng.permutation(n)
            df = df.iloc[perm].reset_index(drop=True)
            truth = pd.DataFrame({"SpecId": df["SpecId"], "is_correct": is_corr[perm]})
            if not (df["Label"] == 0).any():
                continue
            p = d / f"s{r}.pin"
            df.to_csv(p, sep="\t", index=False)
            ds = pipeline.read_datasets([p])
            c = pipeline.run_confidence(ds, [df["f"].values.astype(float)], d / f"o{r}", decoys=False, rng=1, peps_algorithm="kde_nnls")
            res.count("replicates")
            if not c.ok:
                res.count("confidence_failed_replicates")
                res.count("confidence_failed:" + c.sig)
                continue
            files = pipeline.read_results(d / f"o{r}")
            f = fdp_from_files(files, truth, "psms")
            if f:
                obs.append({"rep": r, "psms": {str(a): v for a, v in f.items()}})
                if f[0.1][1] > 0:
                    nt += 1
    res["obs"] = obs
    res["evals"] = case["reps"]
    res["nontrivial"] = nt > 0
    return res


def run_coarse(case):
    """Coarse, saturating scores through assign_confidence (no learning): one target + one decoy per spectrum,
    scores rounded to a grid and clipped to 3 or 5 levels, so that the two PSMs of a null spectrum tie exactly in
    20..40% of the spectra and the acceptance threshold sits on levels where such ties are common; rows shuffled,
    so whichever row order breaks the tie is independent of the label. A tie-break that prefers targets
    under-counts decoys. Judged without the learning slack: the (D+1)/T estimate controls E[FDP] exactly here."""
    rng = core.seed_seq(case["seed"], "C04", "coarse", case["index"])
    res = Result(case, key=f"{case['class']}/{case['seed']}/{case['index']}")
    obs = []
    nt = 0
    with core.scratch("c04c") as d:
        for r in range(case["reps"]):
            n_spectra = 800
            pi1 = float(case["pi1"])
            g = float(case["grid"])
            tab = psm.psm_table(rng, n_spectra=n_spectra, paired=True, pi1=pi1, key_cols=("ExpMass",), n_info=1, n_noise=1,
                                sep_strength=2.5, pep_pool=max(5, n_spectra // 6), with_rid=False)
            L = int(case["top"])
            if case.get("order") in ("targets_first", "decoys_first"):
                t_ = tab["truth"]["is_target"].values
                idx = np.argsort(~t_ if case["order"] == "targets_first" else t_, kind="stable")
                tab["df"] = tab["df"].iloc[idx].reset_index(drop=True)
                tab["truth"] = tab["truth"].iloc[idx].reset_index(drop=True)
            s = np.clip(np.round(tab["df"]["info0"].values.astype(float) / g), -L, L).astype(float)
            p = psm.write_pin(tab, d / "c.pin")
            ds = pipeline.read_datasets([p])
            sizes = {"CONFIDENCE_CHUNK_SIZE": int(0.6 * len(s))} if r % 3 == 1 else {}
            if case.get("one_chunk"):
                sizes = {}
            elif case.get("order") == "targets_first":
                sizes = {"CONFIDENCE_CHUNK_SIZE": int(tab["truth"]["is_target"].sum())}   # targets in chunk 0, decoys in chunk 1
            elif case.get("order") == "decoys_first":
                sizes = {"CONFIDENCE_CHUNK_SIZE": int((~tab["truth"]["is_target"]).sum())}
            out_dir = d / "o"
            with core.chunk_sizes(**sizes):
                c = pipeline.run_confidence(ds, [s], out_dir, decoys=True, rng=1, peps_algorithm="kde_nnls")
            res.count("replicates")
            if not c.ok:
                res.count("confidence_failed_replicates")
                res.count("confidence_failed:" + c.sig)
                continue
            files = pipeline.read_results(out_dir)
            # observed: exactly tied target/decoy competitions
            df = tab["df"].assign(_s=s)
            grp = df.groupby(list(tab["spectrum_columns"]))["_s"]
            res.count("tied_target_decoy_competitions", int((grp.nunique() == 1).sum()))
            res.count("competitions", int(grp.ngroups))
            rec = {"rep": r, "n": n_spectra, "pi1": pi1}
            for lvl in ("psms", "peptides"):
                f = fdp_from_files(files, tab["truth"], lvl, ALPHAS_COARSE)
                if f:
                    rec[lvl] = {str(a): v for a, v in f.items()}
            obs.append(rec)
            if rec.get("psms", {}).get(str(ALPHAS_COARSE[-1]), (0, 0))[1] > 0:
                nt += 1
    res["obs"] = obs
    res["evals"] = case["reps"]
    res["nontrivial"] = nt > 0
    if obs:
        res["sample"] = {"levels": 2 * case["top"] + 1, "grid": case["grid"], "pi1": case["pi1"], "first_replicate": obs[0]}
    return res


def run_reuse(case):
    from vf.props.c05 import _subprocess_run

    res = Result(case, key=[f"reuse/{case['seed']}/{case['index']}/{r}" for r in case["reps"]])
    obs = []
    nt = 0
    for r in case["reps"]:
        rng = core.seed_seq(case["seed"], "C04", "reuse", case["index"], r)
        with core.scratch("c04r") as d:
            tab = psm.psm_table(rng, n_spectra=int(rng.choice([600, 1000])), paired=True, pi1=float(rng.choice([0.2, 0.4])),
                                key_cols=("filename", "ExpMass"), n_files=3, n_info=2, n_noise=2, sep_strength=2.5, pep_pool=150)
            path = psm.write_pin(tab, d / "t.pin")
            common = dict(paths=[str(path)], learner=case["learner"], folds=case["folds"], seed=int(rng.integers(1 << 30)),
                          test_fdr=0.05, train_fdr=0.05, max_iter=2, workers=1, peps_algorithm="qvality", rollup=True)
            first = _subprocess_run(dict(common, dest=str(d / "run1"), dump_models=str(d / "models.pkl")), {}, hashseed=str(101 + r))
            res.count("subprocess_runs")
            if first.get("status") != "ok":
                res.count("first_run_not_ok:" + str(first.get("sig") or first.get("status")))
                continue
            second = _subprocess_run(dict(common, dest=str(d / "run2"), load_models=str(d / "models.pkl")), {}, hashseed=str(202 + r))
            res.count("subprocess_runs")
            res.count("replicates")
            if second.get("status") != "ok":
                if second.get("status") == "harness_error" or not second.get("explicit"):
                    if second.get("stage") == "confidence" and "peps.py" in str(second.get("sig")):
                        res.count("confidence_failed_replicates")
                        continue
                    res.violate("crash", str(second.get("sig") or second.get("status")), msg=str((second.get("error") or {}).get("msg") or second.get("trace"))[:300],
                                learner=case["learner"])
                else:
                    res.count("refused_replicates")
                continue
            # documented consequence checked exactly: the re-scored PSMs carry the first run's scores
            if first.get("scores_sha") != second.get("scores_sha"):
                res.count("rescoring_changed_scores")
            files = pipeline.read_results(d / "run2")
            rec = {"rep": r, "n": len(tab["df"])}
            for lvl in ("psms", "peptides"):
                f = fdp_from_files(files, tab["truth"], lvl)
                if f:
                    rec[lvl] = {str(a): v for a, v in f.items()}
            obs.append(rec)
            if rec.get("psms", {}).get("0.1", (0, 0))[1] > 0:
                nt += 1
    res["obs"] = obs
    res["evals"] = len(case["reps"])
    res["nontrivial"] = nt > 0
    if obs:
        res["sample"] = {"learner": case["learner"], "first_replicate": obs[0]}
    return res


def run_case(case):
    if case["class"] == "reuse":
        return run_reuse(case)
    return {"pipeline": run_pipeline, "small": run_small, "coarse": run_coarse, "sorted_ties": run_coarse, "decoys_first_ties": run_coarse, "targets_first_one_chunk": run_coarse}[case["class"]](case)


def finalize(cases, results, tier):
    bycase = {c["id"]: c for c in cases}
    groups = {}
    for r in results:
        c = bycase.get(r.get("id"))
        if not c or not r.get("obs"):
            continue
        key = ("small",) if c["class"] == "small" else ("reuse", "saved_models_other_session") if c["class"] == "reuse" else (c["class"], f"levels={2 * c['top'] + 1}", f"grid={c['grid']}", f"pi1={c['pi1']}") if c["class"] in ("coarse", "sorted_ties", "decoys_first_ties", "targets_first_one_chunk") else (c["design"], c["learner"], c["folds"])
        groups.setdefault(key, []).extend(r["obs"])
    table = []
    out = []
    for key, obs in sorted(groups.items()):
        direct = key[0] in ("coarse", "sorted_ties", "decoys_first_ties", "targets_first_one_chunk")   # no learning involved: no slack for the liberal bias of rescoring
        for lvl in ("psms", "peptides"):
            for a in (ALPHAS_COARSE if direct else ALPHAS):
                fdps = [o[lvl][str(a)][0] / max(1, o[lvl][str(a)][1]) for o in obs if lvl in o and str(a) in o[lvl]]
                if len(fdps) < 12:
                    continue
                R = len(fdps)
                m = float(np.mean(fdps))
                se = max(float(np.std(fdps, ddof=1) / np.sqrt(R)), (0.2 if direct else 0.5) * a / np.sqrt(R))
                acc = float(np.mean([o[lvl][str(a)][1] for o in obs if lvl in o and str(a) in o[lvl]]))
                if m - a > (0.002 if direct else 0.25 * a + 0.005) + 6 * se:
                    verdict = "violated"
                elif m <= a + 3 * se:
                    verdict = "held"
                else:
                    verdict = "inconclusive"
                table.append({"cell": "/".join(map(str, key)), "level": lvl, "alpha": a, "R": R, "mean_fdp": round(m, 4),
                              "se": round(se, 4), "mean_accepted": round(acc, 1), "verdict": verdict})
                if verdict == "violated":
                    rr = Result({"id": None, "class": key[0] if key[0] in ("small", "coarse", "sorted_ties", "decoys_first_ties", "targets_first_one_chunk", "reuse") else "pipeline"}, key="/".join(map(str, key)))
                    rr["evals"] = 0
                    rr.violate("fdr_not_controlled", f"{'/'.join(map(str, key))}/{lvl}/alpha={a}", mean_fdp=m, se=se, R=R,
                               alpha=a, mean_accepted=acc)
                    out.append(rr)
    cov = {"cells": table, "cells_held": sum(1 for t in table if t["verdict"] == "held"),
           "cells_inconclusive": sum(1 for t in table if t["verdict"] == "inconclusive"),
           "cells_violated": sum(1 for t in table if t["verdict"] == "violated")}
    return {"results": out, "coverage": cov}
