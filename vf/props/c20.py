"""C20 - PepXML parsing turns every search hit into one faithful PSM.

Differential monitor on read_pepxml(..., to_df=True): documents are generated from
a structure the harness keeps (runs > spectra > search results > hits > mods /
alternative proteins / scores); the returned frame is compared row by row with
that structure. Rejection monitors for Percolator-produced and non-PepXML input.
"""
from __future__ import annotations

from xml.sax.saxutils import quoteattr

import numpy as np

from vf import core
from vf.core import Result

LEVEL = "exploration"
RULE = (
    "docs: 1..3 files x 1..3 runs (base_name with/without extension, with/without XML namespace) x 1..30 spectra x "
    "1..2 search_results x 1..4 hits x 0..4 modifications at ascending positions (first/last residue, multi-digit "
    "masses) x 0..3 alternative proteins with mixed prefixes x optional hit attributes x 2..5 search scores "
    "(plain: exact compare; p-value-like: numeric, finite, order-preserving); reject: Percolator score names, "
    "plain text, truncated XML, foreign XML. Non-trivial = a hit with >=2 modifications or a hit whose primary "
    "and alternative proteins disagree in prefix; distinct = (seed,index,rep)."
    " Every third document: a call with exclude_features in between, then the default call again must return the identical table."
    " A fifth of the documents use scan numbers in the upper half of the unsigned 32-bit range."
    " reject also hands a non-PepXML XML or text file over before, after and between valid PepXML files."
    " Run names may contain dots that are no extension."
)
ASSUMPTIONS = [
    "column names of the returned frame (scan, charge, ret_time, exp_mass, calc_mass, ms_data_file, peptide, "
    "proteins, label, <score names>) are part of the observable API",
    "an optional hit attribute is present on every hit of a document or on none",
    "for rejections any exception counts; the types seen are listed in the evidence",
]
AA = "ACDEFGHIKLMNPQRSTVWY"
PLAIN = ["hyperscore", "nextscore", "xcorr", "spscore", "ions"]
SIGNED = ["deltascore", "lnscore"]
PLIKE = ["expect", "pvalue"]


def gen_doc(rng, prefix, file_idx):
    ns = bool(rng.integers(0, 2))
    nruns = int(rng.integers(1, 4))
    opt = {k: bool(rng.integers(0, 2)) for k in ("num_missed_cleavages", "num_tol_term", "num_matched_peptides")}
    scores = list(rng.permutation(PLAIN)[: int(rng.integers(1, 4))]) + list(rng.permutation(SIGNED)[: int(rng.integers(0, 2))]) \
        + list(rng.permutation(PLIKE)[: int(rng.integers(0, 2))])
    if len(scores) < 2:
        scores.append("zscore_plain")
    rows = []
    xml = ['<?xml version="1.0" encoding="UTF-8"?>']
    xml.append('<msms_pipeline_analysis date="2020-01-01T00:00:00"%s summary_xml="x.pepXML">' %
               (' xmlns="http://regis-web.systemsbiology.net/pepXML"' if ns else ""))
    first_signed = True
    # scan numbers: small, or (a fifth of the documents) in the upper half of the unsigned 32-bit range PepXML allows
    scan = 0 if rng.random() < 0.8 else int(rng.choice([2**31 - 3, 3 * 10**9, 2**32 - 400]))
    for r in range(nruns):
        with_ext = bool(rng.integers(0, 2))
        ext = str(rng.choice([".mzML", ".mzXML", ".raw"]))
        # run names may contain dots that are no file extension (QC_HeLa_0.5ug)
        stem = f"run_{file_idx}_{r}" + str(rng.choice(["", "", "_0.5ug", ".v2", "_1.25.x"]))
        base = stem + (ext if with_ext else "")
        data_file = base if with_ext else base + ext
        xml.append(f'<msms_run_summary base_name={quoteattr(base)} raw_data_type="raw" raw_data={quoteattr(ext)}>')
        xml.append('<sample_enzyme name="Trypsin"><specificity cut="KR" no_cut="P" sense="C"/></sample_enzyme>')
        xml.append(f'<search_summary base_name={quoteattr(base)} search_engine="X" precursor_mass_type="monoisotopic" fragment_mass_type="monoisotopic" search_id="1"></search_summary>')
        for s in range(int(rng.integers(1, 31))):
            scan += int(rng.integers(1, 5))
            charge = int(rng.integers(1, 6))
            rt = round(float(rng.random() * 7000), 3)
            em = round(float(500 + rng.random() * 3000), 4)
            xml.append(f'<spectrum_query start_scan="{scan}" assumed_charge="{charge}" spectrum="{base}.{scan}.{scan}.{charge}" '
                       f'end_scan="{scan}" index="{s + 1}" precursor_neutral_mass="{em!r}" retention_time_sec="{rt!r}">')
            for sr in range(int(rng.choice([1, 1, 1, 2]))):
                xml.append("<search_result>")
                for h in range(int(rng.integers(1, 5))):
                    L = int(rng.integers(5, 20))
                    pep = "".join(rng.choice(list(AA), size=L))
                    cm = round(em + float(rng.normal() * 0.02), 4)
                    nmods = int(rng.choice([0, 0, 1, 2, 3, 4]))
                    nmods = min(nmods, L)
                    pos = sorted(rng.choice(np.arange(1, L + 1), size=nmods, replace=False).tolist())
                    if nmods and rng.random() < 0.3:
                        pos[0] = 1
                    if nmods and rng.random() < 0.3:
                        pos[-1] = L
                    pos = sorted(set(pos))
                    masses = [str(rng.choice(["15.9949", "357.2579", "160.0307", "1042.12345", "79.97", "8.0"])) for _ in pos]
                    modpep = ""
                    pm = dict(zip(pos, masses))
                    for i, ch in enumerate(pep, start=1):
                        modpep += ch
                        if i in pm:
                            modpep += "[" + pm[i] + "]"
                    def prot(decoy, k):
                        return ("%ssp|Q%05d|P%d_HUMAN" % (prefix if decoy else "", int(rng.integers(0, 99999)), k))
                    primary_decoy = bool(rng.integers(0, 2))
                    prots = [prot(primary_decoy, 0)]
                    nalt = int(rng.choice([0, 0, 1, 2, 3]))
                    alt_decoy = [bool(rng.integers(0, 2)) for _ in range(nalt)]
                    prots += [prot(dv, k + 1) for k, dv in enumerate(alt_decoy)]
                    label = not all([primary_decoy] + alt_decoy)
                    attrs = {}
                    if opt["num_missed_cleavages"]:
                        attrs["num_missed_cleavages"] = int(rng.integers(0, 3))
                    if opt["num_tol_term"]:
                        attrs["num_tol_term"] = int(rng.integers(0, 3))
                    if opt["num_matched_peptides"]:
                        attrs["num_matched_peptides"] = int(rng.integers(1, 5000))
                    sv = {}
                    for nm in scores:
                        if nm in PLIKE:
                            sv[nm] = "%.3e" % (10 ** float(rng.uniform(-12, 0)))
                        elif nm in SIGNED:
                            v = float(rng.uniform(-50, 50))
                            if first_signed:
                                v = -abs(v) - 0.5
                            sv[nm] = "%.3f" % v
                        elif nm == "ions":
                            sv[nm] = str(int(rng.integers(1, 60)))
                        else:
                            sv[nm] = "%.3f" % float(rng.uniform(1, 99.9))
                    first_signed = False
                    a = " ".join(f'{k}="{v}"' for k, v in attrs.items())
                    xml.append(f'<search_hit peptide="{pep}" massdiff="0.01" calc_neutral_pep_mass="{cm!r}" hit_rank="{h + 1}" '
                               f'protein={quoteattr(prots[0] + " Some description OS=Homo sapiens")} {a} is_rejected="0">')
                    # element order inside a hit varies between tools
                    parts = []
                    alts = "".join(f'<alternative_protein protein={quoteattr(p + " alt desc")}/>' for p in prots[1:])
                    mods = ""
                    if pos:
                        mods = "<modification_info>" + "".join(
                            f'<mod_aminoacid_mass position="{p}" mass="{m}"/>' for p, m in zip(pos, masses)) + "</modification_info>"
                    sc = "".join(f'<search_score name="{k}" value="{v}"/>' for k, v in sv.items())
                    order = int(rng.integers(0, 3))
                    parts = [alts, mods, sc] if order == 0 else ([mods, sc, alts] if order == 1 else [sc, alts, mods])
                    xml.extend(parts)
                    xml.append("</search_hit>")
                    rows.append({"ms_data_file": data_file, "scan": scan, "charge": charge, "ret_time": rt, "exp_mass": em,
                                 "calc_mass": cm, "peptide": modpep, "proteins": prots, "label": label, "scores": sv,
                                 "attrs": attrs, "nmods": len(pos), "mixed": len(set([primary_decoy] + alt_decoy)) > 1})
                xml.append("</search_result>")
            xml.append("</spectrum_query>")
        xml.append("</msms_run_summary>")
    xml.append("</msms_pipeline_analysis>")
    return "\n".join(xml) + "\n", rows, scores


def plan(seed, tier):
    n = 32 if tier == "quick" else 4000
    cases = [{"class": "docs", "index": i, "reps": 8, "cost": 2} for i in range(n)]
    cases += [{"class": "reject", "index": i, "reps": 8, "cost": 1} for i in range(max(4, n // 8))]
    return cases


MANDATORY_CLASSES = ["docs", "reject"]


def run_docs(case):
    mokapot = core.import_mokapot()
    rng = core.seed_seq(case["seed"], "C20", "docs", case["index"])
    res = Result(case)
    nt = evals = 0
    with core.scratch("c20") as d:
        for rep in range(case["reps"]):
            prefix = str(rng.choice(["decoy_", "rev_", "DECOY_"]))
            nfiles = int(rng.choice([1, 1, 2, 3]))
            rows = []
            paths = []
            score_sets = []
            for f in range(nfiles):
                # all files of one call share score names / optional attributes only through chance; keep them equal
                st = rng.bit_generator.state
                text, r, scores = gen_doc(rng, prefix, f)
                if f > 0 and scores != score_sets[0]:
                    pass
                score_sets.append(scores)
                rows += r
                p = d / f"d{rep}_{f}.pep.xml"
                p.write_text(text)
                paths.append(str(p))
            from pathlib import Path as _P

            arg = (paths if rep % 2 else tuple(paths)) if nfiles > 1 else (paths[0] if rep % 2 else _P(paths[0]))
            c = core.Call(mokapot.read_pepxml, arg, decoy_prefix=prefix, to_df=True)
            evals += 1
            extra = dict(files=nfiles, hits=len(rows), prefix=prefix)
            if not c.ok:
                res.violate("crash", c.sig, msg=c.info["msg"], **extra)
                continue
            df = c.value
            if len(df) != len(rows):
                res.violate("row_count", "", got=len(df), expected=len(rows), **extra)
                continue
            if rep % 3 == 0:
                # a call with other options in between (here: some search scores excluded from the features) must
                # leave no trace: the same default call afterwards returns the same table
                snames = sorted({k for r in rows for k in r["scores"]})
                if snames:
                    ex = snames[0] if rep % 2 else tuple(snames[: 1 + rep % 2 + 1])
                    core.Call(mokapot.read_pepxml, arg, decoy_prefix=prefix, exclude_features=ex, to_df=True)
                    c3 = core.Call(mokapot.read_pepxml, arg, decoy_prefix=prefix, to_df=True)
                    res.count("repeated_default_calls")
                    same = c3.ok and list(c3.value.columns) == list(df.columns) and len(c3.value) == len(df)
                    if same:
                        for col in df.columns:
                            a, b = df[col].reset_index(drop=True), c3.value[col].reset_index(drop=True)
                            if str(a.dtype) != str(b.dtype) or not a.equals(b):
                                same = False
                                extra = dict(extra, differing_column=col, dtypes=[str(a.dtype), str(b.dtype)])
                                break
                    if not same:
                        res.violate("result_depends_on_earlier_call", "exclude_features", excluded=list(ex) if isinstance(ex, tuple) else ex,
                                    second_ok=c3.ok, **extra)
                        continue
            df = df.reset_index(drop=True)
            bad = None
            for col, conv in (("ms_data_file", str), ("scan", int), ("charge", int), ("ret_time", float),
                              ("exp_mass", float), ("calc_mass", float), ("peptide", str), ("label", bool)):
                if col not in df.columns:
                    bad = ("missing_column", col, None, None, None)
                    break
                got = [conv(x) for x in df[col].tolist()]
                exp = [conv(r[col]) for r in rows]
                if got != exp:
                    i = next(i for i, (a, b) in enumerate(zip(got, exp)) if a != b)
                    bad = ("field_" + col, col, i, got[i], exp[i])
                    break
            if bad is None:
                got = [str(x).split("\t") for x in df["proteins"].tolist()]
                exp = [r["proteins"] for r in rows]
                if got != exp:
                    i = next(i for i, (a, b) in enumerate(zip(got, exp)) if a != b)
                    bad = ("field_proteins", "proteins", i, got[i], exp[i])
            if bad:
                kind, col, i, g, e = bad
                wit = dict(row=i, got=g, expected=e)
                if i is not None:
                    wit["hit"] = {k: v for k, v in rows[i].items() if k in ("peptide", "proteins", "label", "nmods")}
                res.violate(kind, "", **wit, **extra)
                continue
            # search scores: numeric features
            names = sorted({k for r in rows for k in r["scores"]})
            for nm in names:
                if nm not in df.columns:
                    res.violate("score_missing", nm, **extra)
                    break
                col = df[nm]
                try:
                    vals = np.asarray(col, dtype=float)
                except (TypeError, ValueError):
                    res.violate("score_not_numeric", nm, dtype=str(col.dtype), **extra)
                    break
                have = np.array([nm in r["scores"] for r in rows])
                src = np.array([float(r["scores"].get(nm, "nan")) for r in rows])
                if not np.all(np.isfinite(vals[have])):
                    res.violate("score_not_finite", nm, **extra)
                    break
                if nm in PLIKE:
                    o = np.argsort(src[have], kind="stable")
                    v = vals[have][o]
                    s = src[have][o]
                    if np.any((np.diff(v) < -1e-9) & (np.diff(s) > 0)):
                        res.violate("score_order_changed", nm, **extra)
                        break
                elif have.all():
                    if not np.array_equal(vals, src):
                        i = int(np.flatnonzero(vals != src)[0])
                        res.violate("score_value", nm, row=i, got=float(vals[i]), expected=float(src[i]), **extra)
                        break
            if any(r["nmods"] >= 2 or r["mixed"] for r in rows):
                nt += 1
            if rep == 0:
                res["sample"] = {"files": nfiles, "hits": len(rows), "first_hit": {k: rows[0][k] for k in ("peptide", "proteins", "label", "scores")}}
    res["evals"] = evals
    res["distinct_n"] = nt
    res["nontrivial"] = nt > 0
    return res


def run_reject(case):
    mokapot = core.import_mokapot()
    rng = core.seed_seq(case["seed"], "C20", "reject", case["index"])
    res = Result(case)
    evals = 0
    types = {}
    with core.scratch("c20r") as d:
        for rep in range(case["reps"]):
            kind = ["percolator", "text", "truncated", "foreign_xml", "percolator_second_file", "foreign_xml_after_valid",
                    "foreign_xml_before_valid", "text_among_valid"][rep % 8]
            text, rows, _ = gen_doc(rng, "decoy_", 0)
            paths = [d / f"r{rep}.pep.xml"]
            if kind == "percolator":
                nm = str(rng.choice(["Percolator q-Value", "Percolator PEP", "Percolator SVMScore"]))
                text = text.replace("</search_hit>", f'<search_score name="{nm}" value="0.01"/></search_hit>')
            elif kind == "text":
                text = "SpecId\tLabel\tScanNr\tPeptide\tProteins\nx\t1\t3\tAAA\tprot\n" * int(rng.integers(1, 20))
            elif kind == "truncated":
                text = text[: int(len(text) * rng.uniform(0.2, 0.9))]
            elif kind == "foreign_xml":
                text = '<?xml version="1.0"?>\n<mzML><run id="x"><spectrum index="0"/></run></mzML>\n'
            elif kind in ("foreign_xml_after_valid", "foreign_xml_before_valid", "text_among_valid"):
                # a file that is not PepXML handed over together with genuine PepXML files
                other = d / f"r{rep}_other.xml"
                other.write_text('<?xml version="1.0"?>\n<protein_summary><protein_group group_number="1"/></protein_summary>\n'
                                 if kind != "text_among_valid" else "SpecId\tLabel\nx\t1\n")
                paths = [paths[0], other] if kind != "foreign_xml_before_valid" else [other, paths[0]]
                if kind == "text_among_valid":
                    t3, _, _ = gen_doc(rng, "decoy_", 1)
                    third = d / f"r{rep}_c.pep.xml"
                    third.write_text(t3)
                    paths.append(third)
                first_valid = [p_ for p_ in paths if p_ != other][0]
                first_valid.write_text(text)
            elif kind == "percolator_second_file":
                paths.append(d / f"r{rep}b.pep.xml")
                t2 = text.replace("</search_hit>", '<search_score name="Percolator PEP" value="0.5"/></search_hit>')
                paths[1].write_text(t2)
            if not kind.endswith("_valid"):
                paths[0].write_text(text)
            arg = [str(p) for p in paths] if len(paths) > 1 else str(paths[0])
            c = core.Call(mokapot.read_pepxml, arg, to_df=True)
            evals += 1
            if c.ok:
                res.violate("accepted_" + kind, "", rows=len(c.value), head=text[:200])
            else:
                types[kind] = c.info["type"]
    res["evals"] = evals
    res["distinct_n"] = evals
    res["nontrivial"] = True
    res["sample"] = {"rejection_exception_types": types}
    return res


def run_case(case):
    return {"docs": run_docs, "reject": run_reject}[case["class"]](case)
