"""C01 - TDC q-values equal the defining formula; derived labels.

Monitors: reference-model differential at the API boundary (tdc,
qvalues_from_scores, _update_labels, LinearPsmDataset._update_labels),
exhaustive over weak orderings x labellings x directions for small n, random
stress beyond; the numba kernel is re-run bounds-checked and un-jitted and must
agree bit for bit; in-situ recording contract on qvalues.tdc during real
brew/assign_confidence runs.
"""
from __future__ import annotations

import hashlib
import itertools

import numpy as np

from vf import core
from vf.core import Result
from vf.oracles.qref import q_ref, q_ref_brute, labels_ref, structural_faults

LEVEL = "exploration"
RULE = (
    "exh*: every surjective rank vector (weak ordering) of n items x every labelling x both "
    "directions, fed to mokapot.qvalues.tdc and compared with a brute-force threshold scan; "
    "random: n<=5000 with tie/label regimes named in the class params; a case is non-trivial when "
    "it has >=1 target, >=1 decoy and a tie group holding both labels (exh) or >=2 distinct scores "
    "with both labels (random); distinct = distinct (ranks,labels,direction) triples / distinct seeds"
)
ASSUMPTIONS = [
    "float32 relative tolerance 1e-6 on q-values (implementation stores FDRs in float32; statement fixes no precision)",
    "NaN/inf scores, integer scores beyond 2**24 and length-0 input are outside the statement and not generated",
]
CASE_TIMEOUT = 900
SECONDS_PER_COST = 1


def EXHAUSTIVE(tier):
    return True


RTOL = 1e-6


def plan(seed, tier):
    cases = []
    nmax = 6 if tier == "quick" else 7
    for n in range(1, nmax + 1):
        parts = {1: 1, 2: 1, 3: 1, 4: 1, 5: 4, 6: 32, 7: 256}[n]
        for p in range(parts):
            cases.append({"class": "exh", "n": n, "part": p, "parts": parts, "cost": 10 if n >= 6 else 1})
    # sanitizer-like re-runs of the same enumeration: bounds-checked kernel and interpreter semantics
    nb = 5 if tier == "quick" else 6
    for n in range(1, nb + 1):
        parts = {1: 1, 2: 1, 3: 1, 4: 1, 5: 4, 6: 32, 7: 256}[n]
        for p in range(parts):
            cases.append({"class": "exh_boundscheck", "n": n, "part": p, "parts": parts,
                          "env": {"NUMBA_BOUNDSCHECK": "1"}, "cost": 10 if n >= 6 else 1})
    nj = 4 if tier == "quick" else 5
    for n in range(1, nj + 1):
        parts = {1: 1, 2: 1, 3: 1, 4: 1, 5: 4, 6: 32, 7: 256}[n]
        for p in range(parts):
            cases.append({"class": "exh_nojit", "n": n, "part": p, "parts": parts,
                          "env": {"NUMBA_DISABLE_JIT": "1"}, "cost": 4})
    # dtype / label-encoding rotation
    nd = 5 if tier == "quick" else 6
    for dt in ("float32", "int8", "uint8", "int64"):
        for enc in ("bool", "int", "float"):
            for n in range(1, nd + 1):
                cases.append({"class": "exh_dtype", "n": n, "part": 0, "parts": 1 if n < 5 else (3 if n == 5 else 40),
                              "dtype": dt, "enc": enc, "cost": 3})
    # random stress
    nrand = 48 if tier == "quick" else 640
    for i in range(nrand):
        cases.append({"class": "random", "index": i, "reps": 60 if tier == "quick" else 80, "cost": 2})
    nlab = 16 if tier == "quick" else 160
    for i in range(nlab):
        cases.append({"class": "labels", "index": i, "reps": 60, "cost": 2})
    for i in range(4 if tier == "quick" else 32):
        cases.append({"class": "insitu", "index": i, "cost": 6})
    return cases


MANDATORY_CLASSES = ["exh", "exh_boundscheck", "exh_nojit", "exh_dtype", "random", "labels", "insitu"]


def _rank_vectors(n):
    for rv in itertools.product(range(n), repeat=n):
        m = max(rv)
        if len(set(rv)) == m + 1:
            yield rv


_SCORE_MAPS = {
    # exactly order preserving maps from small integer ranks to floats
    "id": lambda r: r.astype(np.float64),
    "neg": lambda r: r.astype(np.float64) * 0.37 - 1.3,
    "cubic": lambda r: (r.astype(np.float64) - 2.5) ** 3 * 1e-3,
    "huge": lambda r: np.exp2(r.astype(np.float64) * 40 - 100),
}


def _tdc():
    q = core.mk("mokapot.qvalues")
    return q.tdc


def _check_one(res, tdc, scores, targets, desc, ref=None, where="tdc", extra=None):
    """One observed call; returns q or None."""
    s_before, t_before = np.array(scores, copy=True), np.array(targets, copy=True)
    c = core.Call(tdc, scores, targets, desc=desc)
    res.count(where + "_calls")
    # 'returned in input order' is judged against the arrays as the caller handed them over
    if not (np.array_equal(np.asarray(scores), s_before) and np.array_equal(np.asarray(targets), t_before)):
        res.violate("input_mutated", where, scores_before=s_before.tolist()[:20], scores_after=np.asarray(scores).tolist()[:20])
    scores, targets = s_before, t_before
    wit = {"scores": np.asarray(scores).tolist()[:40], "targets": np.asarray(targets).tolist()[:40],
           "desc": desc, "dtype": str(np.asarray(scores).dtype), "tdtype": str(np.asarray(targets).dtype)}
    if extra:
        wit.update(extra)
    if not c.ok:
        res.violate("crash", c.sig, msg=c.info["msg"], **wit)
        return None
    q = np.asarray(c.value)
    if q.shape != (len(scores),):
        res.violate("shape", f"{q.shape}", **wit)
        return None
    if ref is None:
        ref = q_ref(scores, targets, desc)
    faults = structural_faults(q, scores, desc)
    for f in faults:
        res.violate("structure_" + f, "desc" if desc else "asc", q=q.tolist()[:40], **wit)
    bad = ~np.isclose(q, ref, rtol=RTOL, atol=0)
    if bad.any():
        i = int(np.flatnonzero(bad)[0])
        res.violate("formula", "desc" if desc else "asc", q=q.tolist()[:40], expected=ref.tolist()[:40],
                    first_bad=i, **wit)
    return q


def _encode_targets(t, enc):
    t = np.asarray(t, dtype=bool)
    if enc == "bool":
        return t
    if enc == "int":
        return t.astype(np.int64)
    return t.astype(np.float64)


def run_exh(case):
    res = Result(case, key=f"{case['class']}/n{case['n']}/p{case['part']}/{case.get('dtype','')}/{case.get('enc','')}")
    tdc = _tdc()
    n, part, parts = case["n"], case["part"], case["parts"]
    dtype = case.get("dtype", "float64")
    enc = case.get("enc", "bool")
    h = hashlib.sha256()
    evals = 0
    nontriv = 0
    labellings = list(itertools.product((False, True), repeat=n))
    mapnames = list(_SCORE_MAPS)
    sample = None
    for idx, rv in enumerate(_rank_vectors(n)):
        if idx % parts != part:
            continue
        r = np.array(rv)
        if dtype == "float64":
            mp = mapnames[idx % len(mapnames)]
            scores = _SCORE_MAPS[mp](r)
        elif dtype == "float32":
            scores = (r.astype(np.float32) * np.float32(0.25) - np.float32(0.5))
        elif dtype in ("int8", "int64") and idx % 2:
            # signed dtypes over their whole range: ranks mapped onto a grid that starts at the dtype's minimum
            info = np.iinfo(dtype)
            step = 1 if dtype == "int8" else 3
            scores = (info.min + r.astype(np.int64) * step).astype(dtype) if dtype == "int8" else \
                (np.int64(-2**20) + r.astype(np.int64) * step)
        else:
            scores = r.astype(dtype)  # small non-negative integers
        # tie groups for the non-triviality rule
        for lab in labellings:
            t = np.array(lab)
            targ = _encode_targets(t, enc)
            mixed = False
            if t.any() and not t.all():
                for g in range(max(rv) + 1):
                    m = r == g
                    if t[m].any() and not t[m].all():
                        mixed = True
                        break
            for desc in (True, False):
                ref = q_ref_brute(scores, t, desc)
                q = _check_one(res, tdc, scores, targ, desc, ref=ref)
                evals += 1
                if mixed:
                    nontriv += 1
                if q is not None:
                    h.update(q.astype(np.float64).tobytes())
                    if sample is None and mixed and n >= 3:
                        sample = {"scores": scores.tolist(), "targets": t.tolist(), "desc": desc,
                                  "q": q.tolist()}
                    # strictly monotone rescaling must not change anything (exactly)
                    if dtype == "float64" and (idx + evals) % 5 == 0:
                        s2 = scores * 4.0
                        q2 = core.Call(tdc, s2, targ, desc=desc)
                        res.count("rescale_calls")
                        if q2.ok and not np.array_equal(np.asarray(q2.value), q):
                            res.violate("rescale", "x4", scores=scores.tolist(), targets=t.tolist(), desc=desc,
                                        q=q.tolist(), q_rescaled=np.asarray(q2.value).tolist())
            if len(res["violations"]) > 20:
                break
        if len(res["violations"]) > 20:
            break
    res["evals"] = evals
    res["distinct_n"] = nontriv
    res["nontrivial"] = nontriv > 0
    res["digest"] = h.hexdigest()
    res["sample"] = sample
    return res


def _random_vector(rng, regime, n):
    """scores, targets for a named regime."""
    if regime == "continuous":
        s = rng.normal(size=n)
    elif regime == "few_values":
        s = rng.integers(0, 3, size=n).astype(float)
    elif regime == "grid":
        s = np.round(rng.normal(size=n) * 4) / 4
    elif regime == "negative":
        s = -np.abs(rng.normal(size=n)) - 1
    elif regime == "mixed_zero":
        s = rng.choice([-0.0, 0.0, 1.0, -1.0, 5e-324, -5e-324], size=n)
    elif regime == "subnormal":
        s = rng.integers(-5, 6, size=n) * 5e-324
    elif regime == "sorted_desc":
        s = np.sort(np.round(rng.normal(size=n), 1))[::-1].copy()
    elif regime == "sorted_asc":
        s = np.sort(np.round(rng.normal(size=n), 1))
    else:
        s = rng.normal(size=n)
    pt = rng.choice([0.0, 0.1, 0.5, 0.9, 1.0], p=[0.05, 0.2, 0.5, 0.2, 0.05])
    t = rng.random(n) < pt
    if regime == "decoy_prefix":
        s = rng.normal(size=n)
        k = max(1, n // 5)
        top = np.argsort(-s)[:k]
        t = rng.random(n) < 0.6
        t[top] = False
    if regime == "decoy_tie_group":
        s = np.round(rng.normal(size=n) * 2) / 2
        v = rng.choice(np.unique(s))
        t = rng.random(n) < 0.6
        t[s == v] = False
    if regime == "separated":
        t = rng.random(n) < 0.5
        s = rng.normal(size=n) + 3.0 * t
    return s, t


REGIMES = ["continuous", "few_values", "grid", "negative", "mixed_zero", "subnormal", "sorted_desc",
           "sorted_asc", "decoy_prefix", "decoy_tie_group", "separated", "int_extremes"]


def run_random(case):
    rng = core.seed_seq(case["seed"], "C01", "random", case["index"])
    res = Result(case, key=f"random/{case['seed']}/{case['index']}")
    tdc = _tdc()
    qv = core.mk("mokapot.qvalues")
    nontriv = 0
    evals = 0
    for rep in range(case["reps"]):
        regime = REGIMES[(case["index"] + rep) % len(REGIMES)]
        n = int(rng.choice([1, 2, 3, 7, 20, 100, 500, 1500, 5000], p=[.05, .05, .05, .1, .2, .25, .15, .1, .05]))
        s, t = _random_vector(rng, regime, n)
        desc = bool(rng.integers(0, 2))
        enc = ["bool", "int", "float"][rep % 3]
        dt = ["float64", "float64", "float32"][rep % 3] if regime not in ("subnormal", "mixed_zero") else "float64"
        s = s.astype(dt)
        if regime == "int_extremes":
            idt = ["int8", "uint8", "int16"][rep % 3]
            info = np.iinfo(idt)
            s = rng.choice(np.array([info.min, info.min + 1, -1, 0, 1, info.max - 1, info.max]).clip(info.min, info.max),
                           size=n).astype(idt)
        q = _check_one(res, tdc, s, _encode_targets(t, enc), desc, extra={"regime": regime})
        evals += 1
        if t.any() and not t.all() and len(np.unique(s)) >= 2:
            nontriv += 1
        if q is None:
            continue
        # permutation equivariance (exact)
        perm = rng.permutation(n)
        c = core.Call(tdc, s[perm], _encode_targets(t[perm], enc), desc=desc)
        res.count("perm_calls")
        if c.ok and not np.array_equal(np.asarray(c.value), q[perm]):
            res.violate("permutation", regime, n=n, desc=desc, scores=s.tolist()[:40], targets=t.tolist()[:40])
        # exactly order preserving rescaling: dense rank transform (or its negation with flipped direction)
        ranks = np.searchsorted(np.unique(s.astype(np.float64) + 0.0), s.astype(np.float64) + 0.0).astype(np.float64)
        c = core.Call(tdc, ranks, t, desc=desc)
        res.count("rescale_calls")
        if c.ok and not np.array_equal(np.asarray(c.value), q):
            res.violate("rescale", "dense_rank/" + regime, n=n, desc=desc, scores=s.tolist()[:40],
                        targets=t.tolist()[:40], q=q.tolist()[:40], q_rescaled=np.asarray(c.value).tolist()[:40])
        c = core.Call(tdc, -ranks, t, desc=not desc)
        res.count("rescale_calls")
        if c.ok and not np.array_equal(np.asarray(c.value), q):
            res.violate("rescale", "negate_flip/" + regime, n=n, desc=desc, scores=s.tolist()[:40],
                        targets=t.tolist()[:40])
        # dispatch entry point (descending only by construction)
        if desc:
            c = core.Call(qv.qvalues_from_scores, s, t, "tdc")
            res.count("dispatch_calls")
            if not c.ok:
                res.violate("crash", c.sig, msg=c.info["msg"], where="qvalues_from_scores")
            elif not np.array_equal(np.asarray(c.value), q):
                res.violate("dispatch", regime, n=n)
        if len(res["violations"]) > 20:
            break
    res["evals"] = evals
    res["distinct_n"] = nontriv
    res["nontrivial"] = nontriv > 0
    return res


def run_labels(case):
    import pandas as pd

    rng = core.seed_seq(case["seed"], "C01", "labels", case["index"])
    res = Result(case, key=f"labels/{case['seed']}/{case['index']}")
    ds = core.mk("mokapot.dataset")
    tdc = _tdc()
    nontriv = 0
    evals = 0
    for rep in range(case["reps"]):
        regime = REGIMES[(case["index"] + rep) % len(REGIMES)]
        n = int(rng.choice([2, 3, 5, 10, 40, 200, 1000]))
        s, t = _random_vector(rng, regime, n)
        s = s.astype(np.float64)
        desc = bool(rng.integers(0, 2))
        thr = float(rng.choice([0.01, 0.05, 0.1, 0.25, 1 / 3, 0.5, 1.0]))
        ref_q = q_ref(s, t, desc)
        forms = ["ndarray", "series", "linear"]
        form = forms[rep % 3]
        if form == "ndarray":
            c = core.Call(ds._update_labels, s, t, thr, desc)
        elif form == "series":
            c = core.Call(ds._update_labels, pd.Series(s), pd.Series(t), thr, desc)
        else:
            if not t.any() or t.all():
                continue
            df = pd.DataFrame({"t": t, "spec": np.arange(n), "pep": ["P%d" % i for i in range(n)], "f": s})
            lin = core.Call(ds.LinearPsmDataset, df, target_column="t", spectrum_columns="spec",
                            peptide_column="pep", feature_columns=["f"])
            if not lin.ok:
                res.violate("crash", lin.sig, msg=lin.info["msg"], where="LinearPsmDataset")
                continue
            c = core.Call(lin.value._update_labels, s, thr, desc)
        res.count("label_calls")
        evals += 1
        if not c.ok:
            res.violate("crash", c.sig, msg=c.info["msg"], form=form, n=n, scores=s.tolist()[:30], targets=t.tolist()[:30])
            continue
        lab = np.asarray(c.value)
        qc = core.Call(tdc, s, t, desc=desc)
        if not qc.ok:
            continue
        q = np.asarray(qc.value)
        exp = labels_ref(q, t, thr)
        # labels judged against the *returned* q-values; q itself against the formula
        if lab.shape != exp.shape or not np.array_equal(lab, exp):
            res.violate("labels", form, thr=thr, desc=desc, scores=s.tolist()[:30], targets=t.tolist()[:30],
                        labels=lab.tolist()[:30], expected=exp.tolist()[:30], q=q.tolist()[:30])
        if not np.allclose(q, ref_q, rtol=RTOL, atol=0):
            res.violate("formula", "labels_path", thr=thr, desc=desc, scores=s.tolist()[:30], targets=t.tolist()[:30])
        # values strictly inside the float32 rounding band of the threshold are not judged against the rational
        if t.any() and not t.all() and ((lab == 1).any() or (lab == 0).any()):
            nontriv += 1
    res["evals"] = evals
    res["distinct_n"] = nontriv
    res["nontrivial"] = nontriv > 0
    return res


def run_insitu(case):
    """Recording post-condition on qvalues.tdc while a real pipeline runs."""
    from vf.gens import psm
    from vf.instruments import insitu, pipeline

    rng = core.seed_seq(case["seed"], "C01", "insitu", case["index"])
    res = Result(case, key=f"insitu/{case['seed']}/{case['index']}")
    learner = ["tree", "linear", "knn", "constant"][case["index"] % 4]
    records = []

    def post(args, kwargs, out):
        scores = args[0] if args else kwargs["scores"]
        target = args[1] if len(args) > 1 else kwargs["target"]
        desc = args[2] if len(args) > 2 else kwargs.get("desc", True)
        s = np.asarray(scores)
        t = np.asarray(target)
        if s.ndim != 1 or len(s) == 0 or not np.all(np.isfinite(s.astype(float))):
            return ("skipped", None)
        ref = q_ref(s, t.astype(bool), desc)
        q = np.asarray(out)
        ok = q.shape == ref.shape and np.allclose(q, ref, rtol=RTOL, atol=0) and not structural_faults(q, s, desc)
        nd = len(np.unique(s))
        wit = None
        if not ok:
            wit = {"scores": s.tolist()[:60], "targets": t.tolist()[:60], "desc": bool(desc), "q": q.tolist()[:60],
                   "expected": ref.tolist()[:60]}
        return ("ok" if ok else "bad", {"n": len(s), "distinct": nd, "wit": wit})

    with core.scratch("c01") as d:
        tab = psm.psm_table(rng, n_spectra=int(rng.integers(150, 400)), ties=bool(case["index"] % 2))
        path = psm.write_pin(tab, d / "t.pin")
        with insitu.wrap("mokapot.qvalues", "tdc", post, records):
            out = pipeline.brew_and_confidence(path, d / "out", learner=learner, folds=3, seed=int(rng.integers(1 << 30)),
                                               test_fdr=0.1, train_fdr=0.1)
    n_ok = sum(1 for r in records if r[0] == "ok")
    n_bad = sum(1 for r in records if r[0] == "bad")
    res.count("insitu_tdc_calls", len(records))
    res.count("insitu_tdc_tied_inputs", sum(1 for r in records if r[1] and r[1]["distinct"] < r[1]["n"]))
    for r in records:
        if r[0] == "bad":
            res.violate("formula", "insitu", **r[1]["wit"])
            break
    res["evals"] = max(1, len(records))
    res["distinct_n"] = n_ok + n_bad
    res["nontrivial"] = (n_ok + n_bad) > 0
    res["pipeline"] = out.get("status")
    if not records:
        res["status"] = "inconclusive"
        res["note"] = "tdc wrapper never reached: " + str(out.get("error"))
    return res


def run_case(case):
    cl = case["class"]
    if cl.startswith("exh"):
        return run_exh(case)
    if cl == "random":
        return run_random(case)
    if cl == "labels":
        return run_labels(case)
    if cl == "insitu":
        return run_insitu(case)
    raise ValueError(cl)


def finalize(cases, results, tier):
    """JIT vs bounds-checked vs interpreted kernel: outputs bit-identical."""
    base = {}
    for r in results:
        if r.get("class") == "exh" and "digest" in r:
            base[r["key"].split("/", 1)[1]] = r["digest"]
    out = []
    compared = 0
    for r in results:
        if r.get("class") in ("exh_boundscheck", "exh_nojit") and "digest" in r:
            k = r["key"].split("/", 1)[1]
            if k in base:
                compared += 1
                if base[k] != r["digest"]:
                    rr = Result({"id": r["id"], "class": r["class"]}, key=r["key"])
                    rr["evals"] = 0
                    rr.violate("kernel_mode_differs", r["class"], part=k)
                    out.append(rr)
    return {"results": out, "coverage": {"kernel_mode_digest_comparisons": compared}}
