"""C15 - picked-protein: one entry per target/decoy protein pair, won by its best peptide.

Differential monitor on picked_protein() and on targets.proteins / decoys.proteins
written by assign_confidence(proteins=...): the generator knows the bare token under
every decorated peptide string; tokens are mapped through the real peptide_map
(C16's business), pairs are keyed by the *set* of member names without the decoy
prefix, and the best row per pair is computed by a dictionary max.
"""
from __future__ import annotations

import numpy as np
import pandas as pd

from vf import core
from vf.core import Result
from vf.gens import prot, psm
from vf.instruments import pipeline
from vf.oracles.qref import q_ref

LEVEL = "exploration"
RULE = (
    "databases of 40..150 target proteins with shared peptides, subset proteins and planted anagram peptides, "
    "mirrored decoys, UniProt-style or short gene-like names (many starting with letters of the decoy prefix), prefixes "
    "decoy_/DECOY_/rev_, FASTA entry order as generated / decoys shuffled / everything shuffled; peptide tables "
    "with random scores (tie-free and tie-heavy), modification notations ([+15.99], (ox), lower-case letters), "
    "flanks (K.PEP.A, -.PEP.-), shared and (<2%) unknown peptides; direct: picked_protein(); files: "
    "assign_confidence(proteins=...) outputs incl. protein q-values. Non-trivial = >=1 pair in which both the "
    "target and the decoy group own a retained peptide and >=1 shared peptide present; distinct = case parameters."
    " cli_digest: the command-line tool with --proteins and non-default --decoy_prefix / --missed_cleavages / --min_length / --clip_nterm_methionine on databases where the option matters (initiator methionines, peptides spanning a missed cleavage), judged against read_fasta() with the same options."
    " Every sixth direct table is sparse: one peptide per occurring protein group."
    " target_only_reuse: target-only FASTA, one Proteins object serving three peptide tables in turn; each result equals that of a freshly read object, has one entry per pair and only existing groups."
    " A third of the file tables carry PeptideGroup (and ModifiedPeptide) level columns besides proteins."
)
ASSUMPTIONS = [
    "token -> group lookup uses the real Proteins.peptide_map (C16)",
    "target-only FASTA (decoy peptides matched by composition) is covered by C08's determinism check, not judged here",
]
CASE_TIMEOUT = 600


def plan(seed, tier):
    n = 40 if tier == "quick" else 4000
    cases = [{"class": "direct", "index": i, "order": ["generated", "decoys_shuffled", "all_shuffled"][i % 3],
              "ties": bool(i % 4 == 3), "cost": 2} for i in range(n)]
    m = 12 if tier == "quick" else 800
    cases += [{"class": "files", "index": i, "order": ["generated", "decoys_shuffled", "all_shuffled"][i % 3],
               "fmt": ["pin", "parquet"][i % 2], "cost": 6} for i in range(m)]
    k = 4 if tier == "quick" else 60
    cases += [{"class": "cli_digest", "index": i, "cost": 15} for i in range(k)]
    cases += [{"class": "target_only_reuse", "index": i, "cost": 3} for i in range(8 if tier == "quick" else 200)]
    return cases


MANDATORY_CLASSES = ["direct", "files", "cli_digest", "target_only_reuse"]


def pair_key(group, prefix):
    return frozenset(m[len(prefix):] if m.startswith(prefix) else m for m in group.split(", "))


def build_db(rng, d, order, nmin=40):
    db = prot.protein_db(rng, n_prot=int(rng.integers(nmin, 150)), anagrams=int(rng.integers(0, 8)),
                          equal_frac=float(rng.choice([0.0, 0.1])), naming=str(rng.choice(["uniprot", "gene"])),
                          prefix=str(rng.choice(["decoy_", "DECOY_", "rev_"])))
    nt = len(db["targets"])
    idx = list(range(2 * nt))
    if order == "decoys_shuffled":
        idx = idx[:nt] + [nt + int(i) for i in rng.permutation(nt)]
    elif order == "all_shuffled":
        idx = [int(i) for i in rng.permutation(2 * nt)]
    fa = prot.write_fasta(db, d / "db.fasta", with_decoys=True, order=idx)
    return db, fa


def judge_entries(res, entries, rows, proteins, prefix, extra, check_cols=True):
    """entries: DataFrame with 'mokapot protein group','best peptide','stripped sequence','score', '_target'.
    rows: DataFrame of candidate peptide rows: peptide (decorated), token, score, target."""
    pm = proteins.peptide_map
    rows = rows.copy()
    rows["group"] = [pm.get(t) for t in rows["token"]]
    mapped = rows[rows["group"].notna()].copy()
    mapped["key"] = [pair_key(g, prefix) for g in mapped["group"]]
    # a peptide must map to a group of its own kind (target peptide -> target group)
    best = mapped.groupby("key")["score"].max()
    got_keys = [pair_key(g, prefix) for g in entries["mokapot protein group"].astype(str)]
    seen = {}
    for k, g in zip(got_keys, entries["mokapot protein group"]):
        seen.setdefault(k, []).append(g)
    dup = {k: v for k, v in seen.items() if len(v) > 1}
    if dup:
        k = next(iter(dup))
        res.violate("pair_has_two_entries", "", pair=sorted(k), entries=dup[k], **extra)
        return False
    missing = set(best.index) - set(got_keys)
    if missing:
        k = next(iter(missing))
        res.violate("pair_without_entry", "", pair=sorted(k), n_missing=len(missing),
                    peptides=mapped[mapped["key"] == k]["peptide"].tolist()[:4], **extra)
        return False
    unexpected = set(got_keys) - set(best.index)
    if unexpected:
        k = next(iter(unexpected))
        shared_tokens = set(rows[rows["group"].isna()]["token"])
        res.violate("entry_without_unique_peptide", "", pair=sorted(k), entry=seen[k],
                    entry_peptide=entries[[gk == k for gk in got_keys]]["best peptide"].tolist(),
                    is_shared=bool(set(entries[[gk == k for gk in got_keys]]["stripped sequence"]) & shared_tokens), **extra)
        return False
    by_pep = {}
    for _, r in mapped.iterrows():
        by_pep.setdefault((r["peptide"], round(float(r["score"]), 12)), []).append(r)
    for (_, e), k in zip(entries.iterrows(), got_keys):
        s = float(e["score"])
        if not np.isclose(s, best[k], rtol=1e-9, atol=1e-12):
            res.violate("entry_not_best_peptide_of_pair", "", pair=sorted(k), entry_score=s, best_score=float(best[k]),
                        entry_peptide=e["best peptide"], **extra)
            return False
        cands = by_pep.get((e["best peptide"], round(s, 12)))
        if not cands or not any(c["key"] == k for c in cands):
            res.violate("entry_reports_foreign_peptide", "", pair=sorted(k), entry_peptide=e["best peptide"], score=s, **extra)
            return False
        c = next(c for c in cands if c["key"] == k)
        if str(e["stripped sequence"]) != c["token"]:
            res.violate("stripped_sequence_wrong", "", got=e["stripped sequence"], expected=c["token"], peptide=e["best peptide"], **extra)
            return False
        if pair_key(c["group"], prefix) != k or str(e["mokapot protein group"]) != c["group"]:
            res.violate("entry_reports_wrong_group", "", got=e["mokapot protein group"], expected=c["group"], **extra)
            return False
        if "_target" in entries.columns and bool(e["_target"]) != bool(c["target"]):
            res.violate("entry_target_flag_wrong", "", peptide=e["best peptide"], **extra)
            return False
    return True


def run_direct(case):
    mokapot = core.import_mokapot()
    pp = core.mk("mokapot.picked_protein")
    rng = core.seed_seq(case["seed"], "C15", "direct", case["index"])
    res = Result(case)
    with core.scratch("c15") as d:
        db, fa = build_db(rng, d, case["order"])
        c = core.Call(mokapot.read_fasta, str(fa), missed_cleavages=0, min_length=6, decoy_prefix=db["prefix"])
        if not c.ok:
            res.violate("crash", c.sig + "/read_fasta", msg=c.info["msg"])
            return res
        proteins = c.value
        ttoks = sorted({t for toks in db["targets"].values() for t in toks})
        dtoks = sorted({t for toks in db["decoys"].values() for t in toks})
        k = int(rng.integers(len(ttoks) // 3, len(ttoks)))
        toks = [str(t) for t in rng.choice(ttoks, size=k, replace=False)] + [str(t) for t in rng.choice(dtoks, size=int(k * 0.8), replace=False)]
        is_t = [True] * k + [False] * int(k * 0.8)
        if case["index"] % 6 == 2:
            # sparse table: every protein group (target or decoy) that occurs at all occurs with exactly one peptide
            by_group = {}
            for pep_, grp_ in proteins.peptide_map.items():
                by_group.setdefault(grp_, []).append(pep_)
            toks, is_t = [], []
            for grp_ in sorted(by_group):
                if rng.random() < 0.6:
                    toks.append(str(rng.choice(sorted(by_group[grp_]))))
                    is_t.append(not grp_.startswith(db["prefix"]))
            res.count("sparse_tables")
        n_unknown = int(rng.integers(0, max(1, len(toks) // 60)))
        for _ in range(n_unknown):
            toks.append(prot._token(rng, 9))
            is_t.append(bool(rng.integers(0, 2)))
        styles = [s for s in prot.STYLES if s != "lower"] if case["index"] % 5 else prot.STYLES
        peps = [prot.decorate(rng, t, str(rng.choice(styles))) for t in toks]
        scores = rng.normal(size=len(toks)) + 2.0 * np.array(is_t)
        if case["ties"]:
            scores = np.round(scores * 2) / 2
        table = pd.DataFrame({"Label": is_t, "peptide": peps, "score": scores.astype(float)})
        perm = rng.permutation(len(table))
        table = table.iloc[perm]
        if case["index"] % 2:
            table = table.reset_index(drop=True)  # else: the caller's table keeps its (shuffled) index labels
        rows = pd.DataFrame({"peptide": peps, "token": toks, "score": scores.astype(float), "target": is_t}).iloc[perm].reset_index(drop=True)
        extra = dict(order=case["order"], ties=case["ties"], n_peptides=len(table), n_proteins=len(db["targets"]))
        c = core.Call(pp.picked_protein, table.copy(), "Label", "peptide", "score", proteins, int(rng.integers(1 << 30)))
        res.count("picked_protein_calls")
        if not c.ok:
            if c.explicit:
                res["status"] = "refused"
                res["note"] = c.info["msg"]
                known = sum(1 for t in toks if t in proteins.peptide_map or t in proteins.shared_peptides) / len(toks)
                if known >= 0.97:
                    # the refusal says peptides could not be mapped, yet (stripped of decorations) >= 97 % of them
                    # are peptides of the database: modifications / flanks changed the mapping
                    res.violate("refused_although_peptides_map", "", fraction_in_database=round(known, 4), msg=c.info["msg"], **extra)
                return res
            res.violate("crash", c.sig, msg=c.info["msg"], **extra)
            return res
        ent = c.value.rename(columns={"Label": "_target"})
        ok = judge_entries(res, ent, rows, proteins, db["prefix"], extra)
        # strip invariance: the same table with every decoration removed must give the same groups/scores
        if ok:
            bare = table.copy()
            bare["peptide"] = rows["token"].values  # positional: same row order as `table`
            c2 = core.Call(pp.picked_protein, bare, "Label", "peptide", "score", proteins, 1)
            res.count("picked_protein_calls")
            if c2.ok and not case["ties"]:
                a = sorted(zip(ent["mokapot protein group"], np.round(ent["score"].astype(float), 12)))
                b = sorted(zip(c2.value["mokapot protein group"], np.round(c2.value["score"].astype(float), 12)))
                if a != b:
                    res.violate("decorations_change_mapping", "", n_decorated=len(a), n_bare=len(b), **extra)
        pm = proteins.peptide_map
        keys_t = {pair_key(pm[t], db["prefix"]) for t, it in zip(toks, is_t) if it and t in pm}
        keys_d = {pair_key(pm[t], db["prefix"]) for t, it in zip(toks, is_t) if not it and t in pm}
        res["nontrivial"] = bool(keys_t & keys_d) and any(t in proteins.shared_peptides for t in toks)
        res["sample"] = dict(extra, entries=len(ent), pairs_with_both=len(keys_t & keys_d))
    return res


def run_files(case):
    mokapot = core.import_mokapot()
    rng = core.seed_seq(case["seed"], "C15", "files", case["index"])
    res = Result(case)
    with core.scratch("c15f") as d:
        db, fa = build_db(rng, d, case["order"], nmin=90)
        proteins = mokapot.read_fasta(str(fa), missed_cleavages=0, min_length=6, decoy_prefix=db["prefix"])
        tab = prot.psm_table_for_db(rng, db, n_spectra=int(rng.integers(500, 900)), styles=("plain", "mod_sq", "flank", "mod_par", "mod_two", "mod_flank"),
                                    unknown_frac=0.005, sep=1.0)
        if case["index"] % 3 == 1:
            # further roll-up levels between peptides and proteins (a peptide group bundles several peptides): the protein
            # level must still be built from the peptide level
            toks_ = tab["truth"]["token"].values
            pos_ = list(tab["df"].columns).index("Proteins")
            tab["df"].insert(pos_, "PeptideGroup", [("G" if l_ == 1 else "D") + t_[:2] for t_, l_ in zip(toks_, tab["df"]["Label"].values)])
            if case["index"] % 2:
                tab["df"].insert(pos_, "ModifiedPeptide", tab["df"]["Peptide"].values)
            res.count("tables_with_extra_levels")
        path = psm.write_parquet(tab, d / "t.parquet", row_group_size=101) if case["fmt"] == "parquet" else psm.write_pin(tab, d / "t.pin")
        scores = (tab["df"]["info0"].values + 0.5 * tab["df"]["info1"].values).astype(float)
        ds = pipeline.read_datasets([path])
        c = pipeline.run_confidence(ds, [scores], d / "out", proteins=proteins, decoys=True, rng=4, peps_algorithm="kde_nnls")
        res.count("assign_confidence_calls")
        extra = dict(order=case["order"], fmt=case["fmt"], n_proteins=len(db["targets"]))
        if not c.ok:
            if c.explicit:
                res["status"] = "refused"
                res["note"] = c.info["msg"]
                return res
            if c.info.get("file") == "peps.py":
                # PEP estimation needs a handful of decoy entries; how many decoy protein groups survive the
                # picked-protein competition is a property of the generated data, not of the code under test
                res["status"] = "refused"
                res["note"] = "PEP estimator failed at a level with too few decoys: " + c.sig
                res.count("pep_estimation_failed_few_decoys")
                return res
            res.violate("crash", c.sig, msg=c.info["msg"], **extra)
            return res
        files = pipeline.read_results(d / "out")
        if "targets.proteins" not in files or "decoys.proteins" not in files:
            res.violate("missing_result_file", "proteins", files=sorted(files), **extra)
            return res
        pep = pd.concat([files["targets.peptides"].assign(_target=True), files["decoys.peptides"].assign(_target=False)], ignore_index=True)
        tok_of = dict(zip(tab["df"]["SpecId"].astype(str), tab["truth"]["token"]))
        rows = pd.DataFrame({"peptide": pep["peptide"].astype(str), "token": [tok_of[i] for i in pep["PSMId"].astype(str)],
                             "score": pep["score"].astype(float), "target": pep["_target"]})
        ent = pd.concat([files["targets.proteins"].assign(_target=True), files["decoys.proteins"].assign(_target=False)], ignore_index=True)
        ok = judge_entries(res, ent, rows, proteins, db["prefix"], extra)
        if ok:
            for name in ("targets.proteins", "decoys.proteins"):
                s = files[name]["score"].values.astype(float)
                if np.any(np.diff(s) > 1e-12):
                    res.violate("not_sorted", name, **extra)
            q_exp = q_ref(ent["score"].values.astype(float), ent["_target"].values, True)
            qcol = [c for c in ent.columns if c.replace("_", "-") == "q-value"][0]
            if not np.allclose(ent[qcol].values.astype(float), q_exp, rtol=1e-5, atol=1e-9):
                i = int(np.flatnonzero(~np.isclose(ent[qcol].values.astype(float), q_exp, rtol=1e-5, atol=1e-9))[0])
                res.violate("protein_q_value_not_formula", "", group=ent["mokapot protein group"][i], got=float(ent[qcol][i]),
                            expected=float(q_exp[i]), n_entries=len(ent), **extra)
        res["nontrivial"] = bool(len(files["decoys.proteins"]) > 0 and len(files["targets.proteins"]) > 0)
        res["sample"] = dict(extra, targets=len(files["targets.proteins"]), decoys=len(files["decoys.proteins"]))
    return res


def run_cli_digest(case):
    """The `mokapot` command-line tool with --proteins and non-default digest options (decoy prefix, missed cleavages,
    minimum length, N-terminal methionine clipping): its protein files must be those implied by read_fasta() with the
    same options (the harness builds that Proteins object itself) applied to the run's own peptide files."""
    import copy

    mokapot = core.import_mokapot()
    rng = core.seed_seq(case["seed"], "C15", "cli_digest", case["index"])
    res = Result(case)
    i = case["index"]
    prefix = ["decoy_", "rev_"][i % 2]
    clip = bool(i % 4 in (0, 3))
    missed = int(i % 3 == 1) + int(i % 6 == 5)
    minlen = [6, 7][(i // 2) % 2]
    with core.scratch("c15c") as d:
        db = prot.protein_db(rng, n_prot=int(rng.integers(90, 130)), prefix=prefix)
        names = list(db["targets"])
        with_m = {nm for nm in names if rng.random() < 0.35} if clip else set()
        fa = d / "db.fasta"
        with open(fa, "w") as fh:
            for nm in names:
                fh.write(f">{nm} d\n{'M' if nm in with_m else ''}{''.join(db['targets'][nm])}\n")
            for nm in names:
                fh.write(f">{prefix}{nm} d\n{'M' if nm in with_m else ''}{''.join(db['decoys'][prefix + nm])}\n")
        # peptides the PSMs are drawn from: the tokens; with missed cleavages also some adjacent pairs
        dbp = copy.deepcopy(db)
        if missed:
            for nm in names:
                toks = db["targets"][nm]
                dtoks = db["decoys"][prefix + nm]
                for a in range(len(toks) - 1):
                    if rng.random() < 0.3 and len(toks[a]) + len(toks[a + 1]) <= 30:
                        dbp["targets"][nm].append(toks[a] + toks[a + 1])
                        dbp["decoys"][prefix + nm].append(dtoks[a] + dtoks[a + 1])
        proteins = mokapot.read_fasta(str(fa), missed_cleavages=missed, min_length=minlen, decoy_prefix=prefix,
                                      clip_nterm_methionine=clip)
        tab = prot.psm_table_for_db(rng, dbp, n_spectra=int(rng.integers(600, 900)), styles=("plain", "mod_sq", "flank"), sep=2.5)
        path = psm.write_pin(tab, d / "t.pin")
        toks = tab["truth"]["token"]
        unmapped = float(np.mean([t not in proteins.peptide_map and t not in proteins.shared_peptides for t in toks]))
        args = [path, "--dest_dir", d / "out", "--proteins", fa, "--decoy_prefix", prefix, "--missed_cleavages", missed,
                "--min_length", minlen, "--keep_decoys", "--seed", 5, "--folds", 2, "--max_iter", 2, "--train_fdr", 0.1,
                "--test_fdr", 0.1, "-v", 0, "--max_workers", 1, "--peps_algorithm", "kde_nnls"] + (["--clip_nterm_methionine"] if clip else [])
        c = core.Call(core.mk("mokapot.mokapot").main, [str(a) for a in args])
        res.count("cli_runs")
        extra = dict(prefix=prefix, clip=clip, missed_cleavages=missed, min_length=minlen, n_proteins=len(names),
                     peptides_unmapped_under_these_options=round(unmapped, 4))
        if not c.ok:
            if c.info.get("file") == "peps.py":
                res["status"] = "refused"
                res["note"] = "PEP estimator failed: " + c.sig
                res.count("pep_estimation_failed_few_decoys")
                return res
            if c.explicit and not ("matched" in c.info["msg"] or "mapped" in c.info["msg"] or "digest" in c.info["msg"]):
                res["status"] = "refused"
                res["note"] = c.info["msg"]
                return res
            if c.explicit and unmapped > 0.04:
                res["status"] = "refused"
                res["note"] = c.info["msg"]
                return res
            res.violate("cli_fails_with_digest_options" if c.explicit else "crash", c.sig, msg=c.info["msg"], **extra)
            return res
        files = pipeline.read_results(d / "out")
        if "targets.proteins" not in files or "decoys.proteins" not in files:
            res.violate("missing_result_file", "proteins", files=sorted(files), **extra)
            return res
        pep = pd.concat([files["targets.peptides"].assign(_target=True), files["decoys.peptides"].assign(_target=False)], ignore_index=True)
        tok_of = dict(zip(tab["df"]["SpecId"].astype(str), tab["truth"]["token"]))
        rows = pd.DataFrame({"peptide": pep["peptide"].astype(str), "token": [tok_of[x] for x in pep["PSMId"].astype(str)],
                             "score": pep["score"].astype(float), "target": pep["_target"]})
        ent = pd.concat([files["targets.proteins"].assign(_target=True), files["decoys.proteins"].assign(_target=False)], ignore_index=True)
        judge_entries(res, ent, rows, proteins, prefix, extra)
        res["nontrivial"] = bool(len(files["decoys.proteins"]) > 0 and len(files["targets.proteins"]) > 0)
        res["sample"] = dict(extra, targets=len(files["targets.proteins"]), decoys=len(files["decoys.proteins"]))
    return res


def run_target_only_reuse(case):
    """Target-only FASTA (mokapot mirrors the decoy groups itself): one Proteins object serves several peptide tables
    in turn. Each result must be what a freshly read Proteins object gives for the same table and seed, and may
    hold at most one entry per target/decoy pair, all named after real protein groups."""
    mokapot = core.import_mokapot()
    pp = core.mk("mokapot.picked_protein")
    rng = core.seed_seq(case["seed"], "C15", "reuse", case["index"])
    res = Result(case)
    with core.scratch("c15r") as d:
        db = prot.protein_db(rng, n_prot=int(rng.integers(40, 120)), anagrams=int(rng.integers(0, 12)), prefix="decoy_")
        fa = prot.write_fasta(db, d / "db.fasta", with_decoys=False)
        kw = dict(missed_cleavages=0, min_length=6, decoy_prefix="decoy_")
        shared = mokapot.read_fasta(str(fa), **kw)
        ttoks = sorted({t for toks in db["targets"].values() for t in toks})
        dtoks = sorted({t for toks in db["decoys"].values() for t in toks})
        groups = set(shared.peptide_map.values())
        nt = 0
        for call in range(3):
            k = int(rng.integers(len(ttoks) // 4, len(ttoks) // 2))
            toks = [str(t) for t in rng.choice(ttoks, size=k, replace=False)] + [str(t) for t in rng.choice(dtoks, size=int(0.8 * k), replace=False)]
            is_t = [True] * k + [False] * int(0.8 * k)
            scores = rng.normal(size=len(toks)) + 1.5 * np.array(is_t)
            table = pd.DataFrame({"Label": is_t, "peptide": toks, "score": scores.astype(float)}).iloc[rng.permutation(len(toks))].reset_index(drop=True)
            seed = int(rng.integers(1 << 30))
            fresh = mokapot.read_fasta(str(fa), **kw)
            a = core.Call(pp.picked_protein, table.copy(), "Label", "peptide", "score", shared, seed)
            b = core.Call(pp.picked_protein, table.copy(), "Label", "peptide", "score", fresh, seed)
            res.count("picked_protein_calls", 2)
            extra = dict(call=call, n_peptides=len(table), n_proteins=len(db["targets"]))
            if a.ok != b.ok:
                res.violate("outcome_depends_on_earlier_calls", "ok" if a.ok else a.sig, fresh="ok" if b.ok else b.sig, **extra)
                break
            if not a.ok:
                if not a.explicit:
                    res.violate("crash", a.sig, msg=a.info["msg"], **extra)
                continue
            ea = a.value.sort_values(["mokapot protein group", "score"]).reset_index(drop=True)
            eb = b.value.sort_values(["mokapot protein group", "score"]).reset_index(drop=True)
            names = [str(g) for g in ea["mokapot protein group"].tolist()]   # a missing group becomes 'nan'
            bogus = [g for g in names if g not in groups and not (g.startswith("decoy_") and ", ".join(x[len("decoy_"):] for x in g.split(", ")) in groups)]
            if bogus:
                res.violate("entry_for_a_group_that_does_not_exist", "", groups=bogus[:4], **extra)
                break
            keys = [pair_key(g, "decoy_") for g in names]
            if len(set(keys)) != len(keys):
                dup = next(k_ for k_ in keys if keys.count(k_) > 1)
                res.violate("pair_has_two_entries", "target_only", pair=sorted(dup), **extra)
                break
            if list(ea.columns) != list(eb.columns) or len(ea) != len(eb) or any(
                    ea[c].astype(str).tolist() != eb[c].astype(str).tolist() for c in ea.columns):
                res.violate("result_depends_on_earlier_calls", "", n_reused=len(ea), n_fresh=len(eb), **extra)
                break
            if call > 0:
                nt += 1
        res["nontrivial"] = nt > 0
        res["sample"] = dict(n_proteins=len(db["targets"]), calls=3)
    return res


def run_case(case):
    if case["class"] == "target_only_reuse":
        return run_target_only_reuse(case)
    return {"direct": run_direct, "files": run_files, "cli_digest": run_cli_digest}[case["class"]](case)
