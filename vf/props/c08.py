"""C08 - fixed seed gives bit-identical results across runs and interpreter sessions.

Metamorphic monitor over interpreter sessions: the same seeded analysis (API pipeline
with protein-level results from a FASTA with and without decoys, and the CLI) is
executed in fresh interpreters with different PYTHONHASHSEED values, different worker
counts with injected delays, and twice within one process; sha256 digests of fold
assignment, model coefficients, scores and every result file must be equal within a
group. CLI: models saved by one run are fed back in every permutation.
"""
from __future__ import annotations

import hashlib
import itertools
import json
import pickle
from pathlib import Path

import numpy as np

from vf import core
from vf.core import Result
from vf.gens import prot, psm
from vf.instruments import pipeline_main

LEVEL = "exploration"
RULE = (
    "api: groups of runs of one seeded pipeline (learner percolator/svc/linear; FASTA with decoys / target-only with "
    "planted anagram peptides / none) across PYTHONHASHSEED {0,1,2,random} x workers {1,3,8} (+ one in-process "
    "repeat); cli: python -m mokapot.mokapot --seed s --save_models, then --load_models in every permutation "
    "(3 folds: 6, thorough 4 folds: 24), with and without --ensemble, across hash seeds. No tolerance: digests must be equal. Non-trivial = "
    "a group with >= 2 distinct hash seeds or >= 2 worker counts whose runs all succeeded; distinct = group id."
    " The API groups without FASTA use a spectrum key with a string-valued member (file name)."
    " A third of the repeat groups use brew's own default model (model=None), seeded only through brew(rng=...)."
)
ASSUMPTIONS = [
    "np.random.seed(seed) is part of 'a fixed seed' for the API path (the CLI does the same; decoy->target matching uses the global state)",
    "model coefficients are compared through the estimator's coef_/intercept_, not pickle bytes",
    "only artefacts the statement names are compared (log text and timing ignored)",
]
CASE_TIMEOUT = 1500
SHARD_SIZE = 1


def plan(seed, tier):
    cases = []
    ngroups = 3 if tier == "quick" else 10
    hseeds = ["0", "1", "2", "random"] if tier == "quick" else ["0", "1", "2", "3", "17", "random", "random", "4242"]
    for g in range(ngroups):
        for hi, hs in enumerate(hseeds):
            w = [1, 3, 8][hi % 3]
            cases.append({"class": "api", "group": g, "hashseed": hs, "workers": w, "env": {"PYTHONHASHSEED": hs},
                          "repeat": bool(hi == 0), "cost": 20})
    # ensemble scoring through the API (every fold model scores every PSM; averaged) under varied worker counts
    for g in ([200] if tier == "quick" else [200, 201, 202]):
        for hi, hs in enumerate(["0", "1", "random"]):
            cases.append({"class": "api", "group": g, "hashseed": hs, "workers": [1, 3, 8][hi], "env": {"PYTHONHASHSEED": hs},
                          "repeat": False, "ensemble": True, "cost": 20})
    # repeats inside one process without touching numpy's global generator again: every random choice of the
    # analysis must be governed by the seed handed to the API (anagram-rich database, target-only / decoy FASTA / none)
    for g in range(6 if tier == "quick" else 60):
        cases.append({"class": "repeat", "group": 300 + g, "hashseed": "0", "workers": [1, 2][g % 2], "env": {"PYTHONHASHSEED": "0"},
                      "fasta_mode": ["target_only", "target_only", "decoys", "none"][g % 4], "cost": 15})
    ncli = 1 if tier == "quick" else 3
    for g in range(ncli):
        for hs in (["0", "random"] if tier == "quick" else ["0", "1", "random"]):
            cases.append({"class": "cli", "group": g, "hashseed": hs, "env": {"PYTHONHASHSEED": hs},
                          "folds": 3 if tier == "quick" or g else 4, "cost": 60})
    # ensemble mode: every fold model scores every PSM and the scores are averaged
    for hs in (["0"] if tier == "quick" else ["0", "random"]):
        cases.append({"class": "cli", "group": 100, "hashseed": hs, "env": {"PYTHONHASHSEED": hs}, "folds": 3,
                      "ensemble": True, "cost": 60})
    return cases


MANDATORY_CLASSES = ["api", "cli", "repeat"]


def build_api(case, d, vseed):
    rng = core.seed_seq(vseed, "C08", "api", case["group"])  # independent of the hash seed
    g = case["group"]
    fasta_mode = case.get("fasta_mode") or ["decoys", "target_only", "none"][g % 3]
    learner = ["percolator", "svc", "linear"][(g // 3 + g) % 3]
    if case.get("class") == "repeat" and g % 3 == 2:
        learner = "default"    # model=None: brew builds its own model, the only seed is brew(rng=...)
    spec = dict(folds=int(2 + g % 3), seed=int(rng.integers(1 << 30)), test_fdr=0.1, train_fdr=0.1, max_iter=2,
                peps_algorithm="qvality", delay=0.003)
    if learner == "percolator":
        spec["percolator"] = True
    elif learner == "default":
        spec["default_model"] = True
    else:
        spec["learner"] = learner
    if learner == "default":
        # the default model trains at a 1 % FDR: it needs a larger, well separated table; several informative
        # features so that the hyper-parameter search has something to choose between
        fasta_mode = "none"
        tab = psm.psm_table(rng, n_spectra=1500, mult_max=2, key_cols=("ExpMass",), sep_strength=3.0, pi1=0.5, n_info=3, n_noise=6,
                            with_rid=False)
    elif fasta_mode == "none":
        # spectrum key with a string-valued member (the MS file name): anything derived from it by hashing must not
        # depend on the interpreter's hash seed
        tab = psm.psm_table(rng, n_spectra=int(rng.integers(250, 400)), mult_max=3, key_cols=("filename", "ExpMass"), n_files=3, ties=True,
                            levels=("ModifiedPeptide",), pep_pool=20)
    else:
        db = prot.protein_db(rng, n_prot=90, anagrams=40 if case.get("class") == "repeat" else 12)
        tab = prot.psm_table_for_db(rng, db, n_spectra=int(rng.integers(500, 700)), styles=("plain", "mod_sq", "flank"),
                                    sep=2.0, ties=(fasta_mode == "decoys"))
        if learner == "percolator":
            # the built-in model would use the unique row id as a feature and never produce tied scores
            tab["df"] = tab["df"].drop(columns=["rid"])
        fa = prot.write_fasta(db, d / "db.fasta", with_decoys=(fasta_mode == "decoys"))
        spec["fasta"] = str(fa)
        spec["fasta_kwargs"] = dict(missed_cleavages=0, min_length=6)
    if g % 2 == 1 or g % 3 == 0:
        # feature columns with missing values: read_pin must drop them, the surviving order must not vary
        df = tab["df"]
        pos = list(df.columns).index("Peptide")
        for j, nm in enumerate(["gap_a", "zz_gap", "Gap_m"]):
            col = rng.normal(size=len(df))
            col[int(rng.integers(0, len(df)))] = np.nan
            df.insert(pos - j, nm, col)
        for j, nm in enumerate(["extra_b", "aa_extra", "Extra_q", "m_extra"]):
            if fasta_mode == "decoys":
                break  # this group keeps few, coarse features so that learned scores tie
            df.insert(pos, nm, rng.normal(size=len(df)))
        tab["df"] = df
    p = psm.write_pin(tab, d / "in.pin") if g % 2 == 0 else psm.write_parquet(tab, d / "in.parquet", row_group_size=64)
    spec["paths"] = [str(p)]
    return spec, dict(fasta=fasta_mode, learner=learner, rows=len(tab["df"]))


def digest_of(out):
    keys = ("scores_sha", "fold_assignment_sha", "coef_sha", "files", "descs")
    return {k: out.get(k) for k in keys}


def run_api(case):
    res = Result(case, key=f"api/{case['group']}")
    with core.scratch("c08") as d:
        spec, meta = build_api(case, d, case["seed"])
        spec.update(dest=str(d / "out"), workers=case["workers"], ensemble=bool(case.get("ensemble")))
        if case.get("ensemble"):
            spec.update(folds=4, delay=0.01)
            spec.pop("percolator", None)
            spec.setdefault("learner", "svc")
        # several tasks per Parallel call in every run of the group (same configuration: only the session varies)
        spec["chunk_sizes"] = {"CHUNK_SIZE_READ_ALL_DATA": 97, "CONFIDENCE_CHUNK_SIZE": 131}
        if case["workers"] > 1:
            spec["perturb"] = 1000 + case["workers"] + len(case["hashseed"])  # perturbed task schedule
        out = pipeline_main.run(spec)
        res.count("pipeline_runs")
        res["meta"] = meta
        if out["status"] != "ok":
            res["obs"] = {"status": out["status"], "sig": out.get("sig"), "explicit": out.get("explicit"), "msg": (out.get("error") or {}).get("msg")}
            if not out.get("explicit"):
                res.violate("crash", str(out.get("sig")), msg=(out.get("error") or {}).get("msg"), stage=out.get("stage"), **meta)
            else:
                res["status"] = "refused"
            return res
        res["obs"] = dict(status="ok", digest=digest_of(out), threads=out.get("sched_threads"), file_rows=out.get("file_rows"))
        res.count("threads_seen", out.get("sched_threads") or 0)
        res.count("task_kinds_finished_out_of_order", out.get("sched_out_of_order_kinds") or 0)
        if case.get("repeat"):
            # the repeat does not touch numpy's global generator again: the seed handed to the API must suffice
            spec2 = dict(spec, dest=str(d / "out2"), no_np_seed=True)
            out2 = pipeline_main.run(spec2)
            res.count("pipeline_runs")
            if out2["status"] != "ok" or digest_of(out2) != digest_of(out):
                a, b = digest_of(out), digest_of(out2) if out2["status"] == "ok" else {}
                res.violate("differs_within_process", ",".join(k for k in a if a.get(k) != b.get(k)), second_status=out2["status"], **meta)
        res["sample"] = dict(meta, hashseed=case["hashseed"], workers=case["workers"], files=sorted(out.get("files", {})))
    res["nontrivial"] = True
    return res


def run_repeat(case):
    res = Result(case, key=f"repeat/{case['group']}")
    with core.scratch("c08r") as d:
        spec, meta = build_api(case, d, case["seed"])
        spec.update(dest=str(d / "out"), workers=case["workers"], chunk_sizes={"CHUNK_SIZE_READ_ALL_DATA": 97, "CONFIDENCE_CHUNK_SIZE": 131})
        outs = []
        for k in range(3):
            o = pipeline_main.run(dict(spec, dest=str(d / f"out{k}"), no_np_seed=(k > 0)))
            np.random.random(int(1 + k))  # whatever else the process does with the global generator in between
            res.count("pipeline_runs")
            outs.append(o)
            if k == 0:
                # ... and with mokapot itself: other data of the same shape written to the same path and analysed with
                # another fold count, then the file restored byte for byte (module-level caches must not carry over)
                from vf.instruments import pipeline
                if pipeline.history_prelude(spec["paths"], spec["folds"], case["seed"] + case["group"]):
                    res.count("history_preludes_completed")
                else:
                    res.count("history_prelude_failed:" + str(getattr(pipeline.history_prelude, "last_error", "?")))
        res["meta"] = meta
        if outs[0]["status"] != "ok":
            if all(o["status"] != "ok" and o.get("sig") == outs[0].get("sig") for o in outs):
                res["status"] = "refused" if outs[0].get("explicit") else "inconclusive"
                res["note"] = str(outs[0].get("sig"))
                return res
        for k in (1, 2):
            a = digest_of(outs[0]) if outs[0]["status"] == "ok" else {}
            b = digest_of(outs[k]) if outs[k]["status"] == "ok" else {}
            if a != b or outs[0]["status"] != outs[k]["status"]:
                which = [kk for kk in set(a) | set(b) if a.get(kk) != b.get(kk)]
                files = sorted(f for f in set((a.get("files") or {})) | set((b.get("files") or {}))
                               if (a.get("files") or {}).get(f) != (b.get("files") or {}).get(f))
                res.violate("differs_within_process", ",".join(sorted(which)), files=files, statuses=[o["status"] for o in outs], repeat=k, **meta)
                break
        res["sample"] = dict(meta, workers=case["workers"], files=sorted(outs[0].get("files", {})))
        res["nontrivial"] = outs[0]["status"] == "ok"
    return res


def _cli(args):
    m = core.mk("mokapot.mokapot")
    return core.Call(m.main, [str(a) for a in args])


def _dir_digest(p):
    out = {}
    for f in sorted(Path(p).iterdir()):
        if f.is_file() and not f.name.endswith(".pkl"):
            out[f.name] = hashlib.sha256(f.read_bytes()).hexdigest()
    return out


def _coefs(p):
    h = hashlib.sha256()
    for f in sorted(Path(p).glob("*.pkl")):
        with open(f, "rb") as fh:
            m = pickle.load(fh)
        est = m.estimator
        if hasattr(est, "coef_"):
            h.update(np.asarray(est.coef_).tobytes())
            h.update(np.asarray(est.intercept_).tobytes())
            h.update(np.asarray(m.scaler.mean_).tobytes())
        else:
            h.update(b"untrained")
    return h.hexdigest()


def run_cli(case):
    res = None
    for attempt in range(4):
        res = _run_cli(case, attempt)
        # a fold that fails to train makes the saved models unusable for the feed-back test: draw other data
        if not res["counters"].get("load_refused_untrained_model"):
            break
    return res


def _run_cli(case, attempt):
    res = Result(case, key=f"cli/{case['group']}")
    rng = core.seed_seq(case["seed"], "C08", "cli", case["group"], attempt)
    with core.scratch("c08c") as d:
        db = prot.protein_db(rng, n_prot=90, anagrams=12)
        tab = prot.psm_table_for_db(rng, db, n_spectra=int(rng.integers(600, 800)), styles=("plain", "mod_sq"), sep=3.0)
        tab["df"] = tab["df"].drop(columns=["rid"])
        pin = psm.write_pin(tab, d / "in.pin")
        fa = prot.write_fasta(db, d / "db.fasta", with_decoys=bool(case["group"] % 2 == 0))
        folds = case["folds"]
        common = [pin, "--seed", 11, "--folds", folds, "--max_iter", 2, "--train_fdr", 0.1, "--test_fdr", 0.1, "-v", 0,
                  "--keep_decoys", "--proteins", fa, "--missed_cleavages", 0, "--max_workers", [1, 2][case["group"] % 2]]
        if case.get("ensemble"):
            common.append("--ensemble")
        a = _cli(common + ["--dest_dir", d / "first", "--save_models"])
        res.count("cli_runs")
        if not a.ok:
            if a.explicit:
                res["status"] = "refused"
                res["obs"] = {"status": "refused", "msg": a.info["msg"]}
                return res
            res.violate("crash", a.sig + "/first", msg=a.info["msg"])
            return res
        first = _dir_digest(d / "first")
        models = sorted((d / "first").glob("*.pkl"))
        if len(models) != folds:
            res.violate("saved_model_count", "", got=len(models), folds=folds)
            return res
        perms = list(itertools.permutations(models))
        nperm = 0
        for pi, perm in enumerate(perms):
            dest = d / f"perm{pi}"
            b = _cli(common + ["--dest_dir", dest, "--load_models", *perm])
            res.count("cli_runs")
            nperm += 1
            if not b.ok:
                if b.explicit and "not previously trained" in b.info["msg"]:
                    # a fold failed to train in the first run; mokapot refuses such models explicitly
                    res.count("load_refused_untrained_model")
                    break
                res.violate("crash", b.sig + "/load_models", msg=b.info["msg"], permutation=[p.name for p in perm])
                break
            got = _dir_digest(dest)
            if got != first:
                diff = [k for k in set(first) | set(got) if first.get(k) != got.get(k)]
                res.violate("loaded_models_give_different_results", "identity" if pi == 0 else "permuted",
                            permutation=[p.name for p in perm], files=sorted(diff))
                break
        res.count("model_permutations_checked", nperm)
        res["obs"] = dict(status="ok", digest={"files": first, "coef_sha": _coefs(d / "first")})
        res["sample"] = dict(folds=folds, files=sorted(first), hashseed=case["hashseed"])
    res["nontrivial"] = True
    return res


def run_case(case):
    return {"api": run_api, "cli": run_cli, "repeat": run_repeat}[case["class"]](case)


def finalize(cases, results, tier):
    groups = {}
    bycase = {c["id"]: c for c in cases}
    for r in results:
        c = bycase.get(r.get("id"))
        if not c or "obs" not in r:
            continue
        groups.setdefault((c["class"], c["group"]), []).append((c, r))
    out = []
    compared = 0
    multi = 0
    for (cl, g), members in sorted(groups.items()):
        oks = [(c, r) for c, r in members if r["obs"].get("status") == "ok"]
        bad = [(c, r) for c, r in members if r["obs"].get("status") != "ok"]
        if oks and bad:
            rr = Result({"id": None, "class": cl}, key=f"{cl}/{g}")
            rr["evals"] = 0
            rr.violate("runs_differ_in_outcome", cl, ok=[(c["hashseed"], c.get("workers")) for c, _ in oks],
                       failed=[(c["hashseed"], c.get("workers"), r["obs"].get("msg")) for c, r in bad])
            out.append(rr)
        if len(oks) >= 2:
            compared += 1
            if len({c["hashseed"] for c, _ in oks}) >= 2 or len({c.get("workers") for c, _ in oks}) >= 2:
                multi += 1
            ref_c, ref_r = oks[0]
            for c, r in oks[1:]:
                a, b = ref_r["obs"]["digest"], r["obs"]["digest"]
                if a != b:
                    diff = []
                    for k in a:
                        if isinstance(a[k], dict):
                            diff += [f"file:{f}" for f in set(a[k]) | set(b.get(k) or {}) if a[k].get(f) != (b.get(k) or {}).get(f)]
                        elif a[k] != b.get(k):
                            diff.append(k)
                    rr = Result({"id": None, "class": cl}, key=f"{cl}/{g}")
                    rr["evals"] = 0
                    rr.violate("differs_across_sessions", ",".join(sorted(diff))[:200],
                               reference=dict(hashseed=ref_c["hashseed"], workers=ref_c.get("workers")),
                               other=dict(hashseed=c["hashseed"], workers=c.get("workers")), meta=r.get("meta"))
                    out.append(rr)
                    break
    return {"results": out, "coverage": {"groups_compared": compared, "groups_with_varied_sessions": multi}}
