"""C07 - best-feature safety net: never silently worse than the best single feature.

History + model: brew() is driven with estimators that learn, cannot learn, invert
the ranking or memorise; from the estimator log the harness recomputes, per fold
model, the best single feature on exactly the rows that model was trained on, and
compares the number of genuine targets accepted under the returned scores with it.
Direction clause: assign_confidence(descs=[False]) on x must equal
assign_confidence(descs=[True]) on -x.
"""
from __future__ import annotations

import numpy as np
import pandas as pd

from vf import core
from vf.core import Result
from vf.gens import psm
from vf.instruments import pipeline
from vf.oracles import cv
from vf.oracles.qref import q_ref

LEVEL = "exploration"
RULE = (
    "safety: brew(override=False) x learners {linear, svc, constant, noise, invert, knn memoriser, weak (degraded ranking), overfit (exact on its training rows, degraded elsewhere)} x label encodings "
    "{1/-1, 1/0, bool} x best feature higher-/lower-is-better x text/Parquet x 1..2 files x folds 2..4, FDR 0.05/0.1 on "
    "small tables and 0.003/0.005 on tables of 5000-8000 PSMs, train_fdr = "
    "test_fdr; judged: fell back to a recorded best feature with its direction, or accepts >= the best feature's "
    "training count; recorded (best_feat, feat_pass, desc) is an arg-max over features x directions on the recorded "
    "training rows; override=True controls must return model scores. direction: assign_confidence on (x, desc=False) "
    "vs (-x, desc=True). Non-trivial (safety) = the run either fell back or its model was compared with a best "
    "feature accepting >= 5 targets; distinct = case parameters."
    " Half of the safety tables are written with all targets before all decoys or the reverse."
    " A quarter of the safety tables carry the informative feature as 10**12 + milli-units (int64)."
    " A third of the safety tables carry a twin feature of the same quality and the opposite direction."
)
ASSUMPTIONS = [
    "genuine targets come from the generator's ground truth, never from the file's label column",
    "train_fdr = test_fdr on the small tables so that 'accepted during training' and 'accepted at the evaluation FDR' use one threshold; the strict cases train at 1 % and evaluate at 0.3-0.5 % (best-feature count at the training FDR on the recorded training rows, as the library defines it)",
    "q-values for counting use the real tdc (C01)",
]
CASE_TIMEOUT = 600
LEARNERS = ["linear", "constant", "invert", "knn:proba", "noise", "svc", "weak", "overfit"]
ENCS = ["pm1", "01", "bool"]


def plan(seed, tier):
    n = 96 if tier == "quick" else 3000
    cases = []
    for i in range(n):
        cases.append({"class": "safety", "index": i, "learner": LEARNERS[i % 8], "enc": ENCS[(i // 8) % 3],
                      "best_desc": bool((i // 24) % 2 == 0), "fmt": ["pin", "parquet"][(i // 3) % 2],
                      "nfiles": [1, 2][(i // 5) % 2], "folds": int(2 + (i // 7) % 3), "override": bool(i % 12 == 11),
                      "cost": 3})
    # evaluation FDRs stricter than the library's internal defaults (large tables so that something is accepted)
    k = 10 if tier == "quick" else 200
    for i in range(k):
        cases.append({"class": "safety", "index": 10000 + i, "learner": ["spiky:proba", "overfit", "spiky:proba", "svc", "spiky"][i % 5],
                      "enc": ENCS[i % 3], "best_desc": bool(i % 4 != 3), "fmt": ["pin", "parquet"][i % 2], "nfiles": 1,
                      "folds": int(2 + i % 2), "override": False, "strict": True, "cost": 8})
    m = 12 if tier == "quick" else 200
    for i in range(m):
        cases.append({"class": "direction", "index": i, "fmt": ["pin", "parquet"][i % 2], "cost": 6})
    return cases


MANDATORY_CLASSES = ["safety", "direction"]


def accepted(tdc, scores, targets, fdr, desc):
    q = np.asarray(tdc(np.asarray(scores, dtype=float), np.asarray(targets, dtype=bool), desc=desc))
    return int((np.asarray(targets, dtype=bool) & (q <= fdr)).sum())


def run_safety(case):
    tdc = core.mk("mokapot.qvalues").tdc
    rng = core.seed_seq(case["seed"], "C07", "safety", case["index"])
    res = Result(case)
    strict = bool(case.get("strict"))
    fdr = float(rng.choice([0.003, 0.005])) if strict else float(rng.choice([0.05, 0.1]))
    with core.scratch("c07") as d:
        tabs, paths = [], []
        for fi in range(case["nfiles"]):
            # with two collections the first is several times larger than the second (the smaller one is read faster)
            big = 3 if (case["nfiles"] > 1 and fi == 0) else 1
            tab = psm.psm_table(rng, n_spectra=(int(rng.integers(2500, 4000)) if strict else int(rng.integers(120, 220)) * case["folds"] * big), mult_max=2,
                                key_cols=("ExpMass",), file_index=fi, label_enc=case["enc"],
                                best_feature_desc=case["best_desc"], sep_strength=3.0, n_info=1, n_noise=3)
            # a third of the tables have a second feature of the same quality as the informative one, pointing the other
            # way (lower is better): which of the two is best differs between training sets by chance
            if rng.random() < 0.34:
                corr = tab["truth"]["is_correct"].values.astype(float)
                sign = -1.0 if case["best_desc"] else 1.0
                twin = sign * (rng.normal(size=len(corr)) + 3.0 * corr)
                tab["df"].insert(list(tab["df"].columns).index("info0") + 1, "twin0", twin)
                tab["features"] = list(tab["features"]) + ["twin0"]
                res.count("tables_with_twin_feature")
            # a quarter of the tables carry their informative feature as a large integer (fixed-point score with a constant
            # offset): exact in float64 and in int64, but neighbours coincide in float32
            if rng.random() < 0.25:
                tab["df"]["info0"] = (10**12 + np.round(tab["df"]["info0"].values * 1000)).astype(np.int64)
                res.count("tables_with_large_integer_feature")
            # row order of the file: shuffled, or all targets before all decoys (concatenated target and decoy search
            # results) or the reverse - tied scores then sit in label order
            order = str(rng.choice(["shuffled", "shuffled", "targets_first", "decoys_first"]))
            if order != "shuffled":
                t = tab["truth"]["is_target"].values
                idx = np.argsort(~t if order == "targets_first" else t, kind="stable")
                tab["df"] = tab["df"].iloc[idx].reset_index(drop=True)
                tab["truth"] = tab["truth"].iloc[idx].reset_index(drop=True)
            tabs.append(tab)
            paths.append(psm.write_parquet(tab, d / f"f{fi}.parquet", row_group_size=int(rng.integers(20, 500)))
                         if case["fmt"] == "parquet" else psm.write_pin(tab, d / f"f{fi}.pin"))
        # strict cases train at the customary 1 % and evaluate at 0.3-0.5 %
        train_fdr = 0.01 if strict else fdr
        w = 3 if case["index"] % 3 == 1 else 1
        out = pipeline.run_brew(paths, learner=case["learner"], folds=case["folds"], seed=int(rng.integers(1 << 30)),
                                test_fdr=fdr, train_fdr=train_fdr, max_iter=2, override=case["override"], max_workers=w,
                                perturb=int(rng.integers(1 << 30)),
                                history=(case["seed"] + case["index"]) if case["index"] % 5 in (1, 3) else None,
                                history_mode="few_decoys" if case["index"] % 5 == 3 else "permuted")
        if out.get("history_prelude_completed"):
            res.count("runs_after_history_prelude" + (":few_decoys" if case["index"] % 5 == 3 else ""))
        extra_workers = w
        extra = {k: case[k] for k in ("learner", "enc", "best_desc", "fmt", "nfiles", "folds", "override")}
        extra["fdr"] = fdr
        extra["train_fdr"] = train_fdr
        extra["strict"] = strict
        extra["workers"] = extra_workers
        if out["status"].startswith("crash"):
            res.violate("crash", out["sig"], msg=out["error"]["msg"], **extra)
            return res
        if out["status"].startswith("refused"):
            res["status"] = "refused"
            res["note"] = out["error"]["msg"]
            if "No PSMs" in out["error"]["msg"] or "No target PSMs" in out["error"]["msg"]:
                # refusing to train is fine when nothing separates targets from decoys - not when a single feature,
                # in one of the two directions, accepts plenty of genuine targets on the whole table
                # judged only at the loose FDRs and only with a margin that makes the refusal impossible for a correct
                # implementation: if a feature accepts t >= 60 targets on the whole table at fdr/5, i.e. (d+1)/t <= fdr/5,
                # then any training set holding >= 1/4 of those targets (it holds >= half of the spectra) has
                # (d'+1)/t' <= 4(d+1)/t <= 0.8 fdr at the same score threshold, so that feature accepts there too.
                # (Without the margin a half can legitimately sit exactly on the threshold: (3+1)/80 = 0.05 is stored
                # in float32 as 0.05000000075 and is not <= 0.05.)
                best = 0
                for t in tabs:
                    tt = t["truth"]["is_target"].values
                    for f in t["features"]:
                        for dsc in (True, False):
                            best = max(best, accepted(tdc, t["df"][f].values, tt, fdr / 5, dsc))
                res.count("refusals_seen")
                if best >= 60 and not strict:
                    res.violate("refused_although_a_feature_separates", "lower_is_better" if not case["best_desc"] else "higher_is_better",
                                accepted_by_best_feature_at_fdr_over_5=best, msg=out["error"]["msg"], **extra)
            return res
        log = out["log"]
        training, final = cv.split_log(log)
        feats = tabs[0]["features"]
        big = pd.concat([t["df"].assign(_t=t["truth"]["is_target"].values) for t in tabs], ignore_index=True)
        by_rid = big.set_index("rid", drop=False)
        # (2) recorded best feature is an arg-max on the recorded training rows
        train_rids = {}
        for e in training:
            train_rids.setdefault(e["uid"], set()).update(int(r) for r in e["rids"])
        a_feat = 0
        best_pairs = set()
        for m in out["models"]:
            uid = getattr(m.estimator, "uid_", None)
            if uid not in train_rids:
                continue
            sub = by_rid.loc[sorted(train_rids[uid])]
            counts = {(f, dsc): accepted(tdc, sub[f].values, sub["_t"].values, train_fdr, dsc) for f in feats for dsc in (True, False)}
            mx = max(counts.values())
            res.count("models_checked")
            if m.feat_pass != mx or counts.get((m.best_feat, bool(m.desc))) != mx:
                res.violate("recorded_best_feature_not_argmax", "", recorded=[str(m.best_feat), None if m.feat_pass is None else int(m.feat_pass), None if m.desc is None else bool(m.desc)],
                            oracle_max=mx, oracle_best=[k for k, v in counts.items() if v == mx][:3], **extra)
                return res
            a_feat = max(a_feat, mx)
            best_pairs.add((m.best_feat, bool(m.desc), int(m.feat_pass or 0)))
        # (1) returned scores
        ret = [np.asarray(s, dtype=float).reshape(-1) for s in out["scores"]]
        descs = list(out["descs"])
        if len(set(descs)) != 1 or len(descs) != len(tabs):
            res.violate("descs_shape", str(descs), **extra)
            return res
        if any(len(r) != len(t["df"]) for r, t in zip(ret, tabs)):
            res.violate("scores_do_not_belong_to_their_collection", "length", lengths=[len(r) for r in ret],
                        rows=[len(t["df"]) for t in tabs], **extra)
            return res
        fell_back_to = None
        for f in feats:
            if all(len(r) == len(t["df"]) and np.allclose(r, t["df"][f].values.astype(float), rtol=1e-12, atol=0) for r, t in zip(ret, tabs)):
                fell_back_to = f
        a_ret = sum(accepted(tdc, r, t["truth"]["is_target"].values, fdr, descs[0]) for r, t in zip(ret, tabs))
        res["sample"] = dict(extra, a_feat=a_feat, a_ret=a_ret, fell_back_to=fell_back_to, descs=descs,
                             trained=[bool(m.is_trained) for m in out["models"]])
        if case["override"]:
            if fell_back_to is not None:
                res.violate("fell_back_despite_override", fell_back_to, **extra)
            res["nontrivial"] = True
            return res
        if fell_back_to is not None:
            res.count("fallback_runs")
            top = max(p[2] for p in best_pairs) if best_pairs else None
            ok_dir = any(p[0] == fell_back_to and p[1] == bool(descs[0]) and p[2] == top for p in best_pairs)
            if not ok_dir:
                res.violate("fallback_wrong_feature_or_direction", fell_back_to, returned_desc=descs[0],
                            recorded=[list(map(str, p)) for p in best_pairs], **extra)
            res["nontrivial"] = True
            return res
        res.count("model_score_runs")
        if a_ret < a_feat:
            zero = all(not np.any(r) for r in ret)
            res.violate("worse_than_best_feature_without_fallback", "all_zero_scores" if zero else "model_scores",
                        accepted_returned=a_ret, accepted_best_feature=a_feat, enc=case["enc"], detail=extra)
        res["nontrivial"] = a_feat >= 5
    return res


def _tables_equal(a, b, score_sign):
    """Compare two result-file dicts; b's score column is sign-flipped relative to a."""
    if sorted(a) != sorted(b):
        return f"files differ: {sorted(a)} vs {sorted(b)}"
    for name in a:
        x, y = a[name], b[name]
        if list(x.columns) != list(y.columns) or len(x) != len(y):
            return f"{name}: shape {x.shape} vs {y.shape}"
        for c in x.columns:
            if c == "score":
                if not np.allclose(x[c].values.astype(float), score_sign * y[c].values.astype(float), rtol=1e-9, atol=1e-12):
                    return f"{name}: score column differs beyond sign"
            elif c in ("q-value", "q_value", "posterior_error_prob"):
                if c != "posterior_error_prob" and not np.allclose(x[c].values.astype(float), y[c].values.astype(float), rtol=1e-6, atol=1e-9):
                    return f"{name}: {c} differs: {x[c].values[:4]} vs {y[c].values[:4]}"
            elif x[c].astype(str).tolist() != y[c].astype(str).tolist():
                return f"{name}: column {c} differs (rows/ordering): {x[c].tolist()[:3]} vs {y[c].tolist()[:3]}"
    return None


def run_direction(case):
    rng = core.seed_seq(case["seed"], "C07", "direction", case["index"])
    res = Result(case)
    with core.scratch("c07d") as d:
        tab = psm.psm_table(rng, n_spectra=int(rng.integers(300, 700)), mult_max=3, key_cols=("ExpMass",), with_rid=False,
                            best_feature_desc=False, sep_strength=3.0)
        path = psm.write_parquet(tab, d / "t.parquet", row_group_size=128) if case["fmt"] == "parquet" else psm.write_pin(tab, d / "t.pin")
        x = tab["df"]["info0"].values.astype(float)  # lower is better
        ds = pipeline.read_datasets([path])
        c1 = pipeline.run_confidence(ds, [x.copy()], d / "asc", descs=[False], decoys=True, rng=3)
        ds = pipeline.read_datasets([path])
        c2 = pipeline.run_confidence(ds, [-x], d / "neg", descs=[True], decoys=True, rng=3)
        res.count("assign_confidence_calls", 2)
        extra = dict(fmt=case["fmt"], n=len(x))
        if not c2.ok:
            if c2.explicit:
                res["status"] = "refused"
                return res
            res.violate("crash", c2.sig + "/desc_true", msg=c2.info["msg"], **extra)
            return res
        if not c1.ok:
            res.violate("direction_not_honoured", "run_failed:" + c1.sig, msg=c1.info["msg"], **extra)
            return res
        a = pipeline.read_results(d / "asc")
        b = pipeline.read_results(d / "neg")
        diff = _tables_equal(a, b, -1.0)
        if diff:
            acc_a = int((a["targets.psms"].filter(regex="q.value").iloc[:, 0] <= 0.05).sum()) if "targets.psms" in a else None
            acc_b = int((b["targets.psms"].filter(regex="q.value").iloc[:, 0] <= 0.05).sum()) if "targets.psms" in b else None
            res.violate("direction_not_honoured", "results_differ", diff=diff, accepted_desc_false=acc_a,
                        accepted_negated_desc_true=acc_b, **extra)
        res["nontrivial"] = True
        res["sample"] = dict(extra, files=sorted(a))
    return res


def run_case(case):
    return {"safety": run_safety, "direction": run_direction}[case["class"]](case)
