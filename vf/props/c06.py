"""C06 - PEPs are probabilities, monotone in score, aligned with their PSM.

Invariant monitor at the API boundary of peps_from_scores / qvalues_from_scores for
every selectable algorithm, on two-component mixtures in *arbitrary input order*;
file-level alignment is observed on assign_confidence outputs.
"""
from __future__ import annotations

import numpy as np

from vf import core
from vf.core import Result

LEVEL = "exploration"
RULE = (
    "mixtures (separation 1..5 sd, pi0 0.2..0.95, n_t,n_d in 50..20000 balanced and 10:1, continuous and "
    "discretised scores, shifted/scaled) in random input order x PEP algorithms qvality, kde_nnls, hist_nnls and "
    "q-value algorithms from_counts, from_peps; each call also repeated on a permutation of its input. Checked: "
    "length, finiteness, range, monotonicity in score, equality on ties, permutation equivariance. files: PEP / "
    "q-value columns of assign_confidence outputs per algorithm. Non-trivial = unsorted input with >=50 targets "
    "and >=50 decoys; distinct = (algorithm, seed, index, rep)."
    " files class, every second case: the same analysis written to an SQLite result database (sqlite_path): stored PEP / q-value / score of every PSM and peptide equal the text files', PEPs in [0,1] and score-monotone."
    " Score form bigint: int64 fixed-point scores 1e9 + milli-units; permutation equivariance of the interpolating q-value estimators is demanded whenever the scores are actually tie-free."
)
ASSUMPTIONS = [
    "degenerate inputs (no decoys, constant scores, <50 of either label) are outside the statement",
    "permutation equivariance within 1e-9 for qvality and 2e-3 for the KDE / histogram + NNLS estimators (summation-order noise amplified by the NNLS active set; seen up to 8e-5); everything else exact (monotonicity +1e-12)",
    "qvality_bin needs an external binary that is absent: reported, not judged",
    "an all-inf from_counts result (best PSM is a decoy) is 'monotone and non-negative' as worded and only counted",
]
PEP_ALGS = ["qvality", "kde_nnls", "hist_nnls"]
Q_ALGS = ["from_counts", "from_peps"]
CASE_TIMEOUT = 900


def gen_mixture(rng, big=False):
    sep = float(rng.choice([1.5, 2.5, 4.0]))
    pi0 = float(rng.choice([0.2, 0.5, 0.8, 0.95]))
    sizes = [60, 200, 1000, 3000] + ([20000] if big else [])
    nt = int(rng.choice(sizes))
    nd = nt if rng.random() < 0.6 else max(50, nt // 10)
    n_false = int(round(nt * pi0))
    tgt = np.r_[rng.normal(0, 1, n_false), rng.normal(sep, 1, nt - n_false)]
    dec = rng.normal(0, 1, nd)
    s = np.r_[tgt, dec]
    t = np.r_[np.ones(nt, bool), np.zeros(nd, bool)]
    form = str(rng.choice(["cont", "grid", "scaled", "shifted", "bigint"]))
    if form == "bigint":
        # integer-typed scores of large magnitude (fixed-point scores with an offset): exact in int64 and float64,
        # neighbours coincide in float32
        s = (10**9 + np.round(s * 1000)).astype(np.int64)
    elif form == "grid":
        s = np.round(s * 8) / 8
    elif form == "scaled":
        s = s * 37.5
    elif form == "shifted":
        s = s - 100.0
    perm = rng.permutation(len(s))
    return s[perm], t[perm], dict(sep=sep, pi0=pi0, nt=nt, nd=nd, form=form)


def faults(vals, s, lo=0.0, hi=1.0, name="pep"):
    """Structural faults of a per-PSM value that should be monotone non-increasing in score... PEP increases as score worsens."""
    out = []
    v = np.asarray(vals, dtype=float)
    if v.shape != s.shape:
        return [("length", f"{v.shape} for {s.shape}")]
    if not np.all(np.isfinite(v)):
        if np.all(np.isinf(v)) and name != "pep":
            return [("__allinf__", "")]
        return [("not_finite", f"{int((~np.isfinite(v)).sum())} values")]
    if np.any(v < lo - 1e-12) or (hi is not None and np.any(v > hi + 1e-12)):
        out.append(("range", f"min={v.min()} max={v.max()}"))
    o = np.argsort(-s, kind="stable")
    so, vo = s[o], v[o]
    d = np.diff(vo)
    strict = np.diff(so) < 0
    if np.any(d[strict] < -1e-12):
        i = int(np.flatnonzero((d < -1e-12) & strict)[0])
        out.append(("not_monotone", f"scores {so[i]}>{so[i+1]} values {vo[i]}>{vo[i+1]}"))
    tie = ~strict
    if np.any(np.abs(d[tie]) > 1e-12):
        i = int(np.flatnonzero((np.abs(d) > 1e-12) & tie)[0])
        out.append(("tie_unequal", f"score {so[i]} values {vo[i]} vs {vo[i+1]}"))
    return out


def qvality_reference(s, t):
    """PEP per PSM straight from triqler: it returns the PEPs of all scores sorted in descending order;
    equal scores receive equal values, so a score -> value table is well defined."""
    try:
        from triqler import qvality
    except Exception:  # noqa: BLE001
        return None
    old, qvality.VERB = qvality.VERB, 0
    try:
        _, peps = qvality.getQvaluesFromScores(s[t].copy(), s[~t].copy(), includeDecoys=True, includePEPs=True, tdcInput=False)
    finally:
        qvality.VERB = old
    srt = np.sort(s)[::-1]
    table = {}
    for sc, p in zip(srt.tolist(), np.asarray(peps, dtype=float).tolist()):
        if sc in table and abs(table[sc] - p) > 1e-12:
            return None  # the library itself is not a function of the score here: no reference
        table.setdefault(sc, p)
    return np.array([table[x] for x in s.tolist()])


def plan(seed, tier):
    cases = []
    n = 10 if tier == "quick" else 400
    for alg in PEP_ALGS:
        m = n if alg != "qvality" else n
        for i in range(m):
            cases.append({"class": "pep_" + alg, "alg": alg, "index": i, "reps": 4 if alg == "qvality" else 12,
                          "cost": 8})
    for alg in Q_ALGS:
        for i in range(n):
            cases.append({"class": "q_" + alg, "alg": alg, "index": i, "reps": 12, "cost": 4})
    for i in range(6 if tier == "quick" else 240):
        cases.append({"class": "files", "index": i, "cost": 8})
    cases.append({"class": "probe_qvality_bin", "cost": 1})
    return cases


MANDATORY_CLASSES = ["pep_qvality", "pep_kde_nnls", "pep_hist_nnls", "q_from_counts", "q_from_peps", "files"]


_BUFFERS = {}


def _buffer(kind, arr):
    """Callers often keep one preallocated array per size and refill it: the same objects, new contents."""
    key = (kind, len(arr), arr.dtype.str)
    b = _BUFFERS.get(key)
    if b is None:
        b = _BUFFERS[key] = np.empty(len(arr), dtype=arr.dtype)
    b[:] = arr
    return b


def _run_alg(case, fn, algname, lo, hi, name):
    rng = core.seed_seq(case["seed"], "C06", case["class"], case["index"])
    res = Result(case)
    nt = evals = 0
    for rep in range(case["reps"]):
        s, t, meta = gen_mixture(rng, big=(rep == 0 and case["index"] % 5 == 0))
        reuse = bool(rep % 2)
        s_in, t_in = (_buffer("s", s), _buffer("t", t)) if reuse else (s.copy(), t.copy())
        c = core.Call(fn, s_in, t_in, algname)
        if not (np.array_equal(s_in, s) and np.array_equal(t_in, t)):
            # values are owed to the PSMs in the order the caller passed them; reordering the caller's arrays breaks that
            res.violate("input_mutated", algname, **meta)
        evals += 1
        res.count(algname + "_calls")
        extra = dict(alg=algname, **meta)
        if not c.ok:
            res.violate("crash", c.sig, msg=c.info["msg"], **extra)
            continue
        v = np.asarray(c.value, dtype=float)
        fl = faults(v, s, lo, hi, name)
        if fl and fl[0][0] == "__allinf__":
            res.count("all_inf_results")
            continue
        for kind, d in fl:
            res.violate(kind, algname, what=d, **extra)
        # For the interpolating q-value estimators the value of a tied score legitimately depends on
        # which tied PSM comes last; equivariance is therefore demanded on tie-free input only
        # (see DESIGN 11); tie equality and monotonicity are still checked on tied input.
        if not fl and not (name == "q" and len(np.unique(s)) < len(s)):
            # alignment: f(s[p], t[p]) == f(s, t)[p]
            p = rng.permutation(len(s))
            # (for the buffer-reusing callers: the very same array objects, refilled in the permuted order)
            s2, t2 = (_buffer("s", s[p]), _buffer("t", t[p])) if reuse else (s[p].copy(), t[p].copy())
            c2 = core.Call(fn, s2, t2, algname)
            res.count("permuted_calls")
            if c2.ok:
                v2 = np.asarray(c2.value, dtype=float)
                # qvality sorts internally (order independent to the last bit); the KDE / histogram + NNLS
                # estimators amplify summation-order noise up to ~1e-4 (active set changes), a misalignment
                # would show as O(0.1..1) differences
                tol = 1e-9 if algname == "qvality" else 2e-3
                if v2.shape != v.shape or not np.allclose(v2, v[p], rtol=tol, atol=tol):
                    k = int(np.argmax(np.abs(v2 - v[p]))) if v2.shape == v.shape else -1
                    res.violate("misaligned", algname, worst=k, a=float(v2[k]) if k >= 0 else None,
                                b=float(v[p][k]) if k >= 0 else None, **extra)
            else:
                res.violate("crash", c2.sig + "/permuted", msg=c2.info["msg"], **extra)
        if algname == "qvality" and not fl:
            # 'belongs to its PSM': the value returned for PSM i must be the value the underlying (third-party)
            # estimator assigns to score s_i - it reports PEPs for the scores sorted in descending order
            ref = qvality_reference(s, t)
            res.count("qvality_reference_comparisons")
            if ref is not None and not np.allclose(v, ref, rtol=1e-9, atol=1e-12):
                k = int(np.argmax(np.abs(v - ref)))
                res.violate("pep_of_another_psm", algname, worst=k, got=float(v[k]), expected=float(ref[k]), score=float(s[k]),
                            n_mismatch=int((~np.isclose(v, ref, rtol=1e-9, atol=1e-12)).sum()), **extra)
        nt += 1
        if rep == 0:
            res["sample"] = dict(extra, n=len(s), head_scores=s[:5].tolist(), head_values=v[:5].tolist())
        if len(res["violations"]) > 5:
            break
    res["evals"] = evals
    res["distinct_n"] = nt
    res["nontrivial"] = nt > 0
    return res


def run_files(case):
    """PEP / q-value columns of real result files, per PEP algorithm."""
    import pandas as pd
    from vf.gens import psm
    from vf.instruments import pipeline

    rng = core.seed_seq(case["seed"], "C06", "files", case["index"])
    res = Result(case)
    alg = PEP_ALGS[case["index"] % 3]
    with core.scratch("c06") as d:
        tab = psm.psm_table(rng, n_spectra=int(rng.integers(300, 900)), mult_max=2, ties=bool(case["index"] % 2), with_rid=False)
        # shuffle rows so that file order is unrelated to score order
        path = psm.write_pin(tab, d / "t.pin") if case["index"] % 2 else psm.write_parquet(tab, d / "t.parquet", row_group_size=97)
        ds = pipeline.read_datasets([path])
        scores = [tab["df"]["info0"].values.astype(float) + 0.3 * tab["df"]["info1"].values]
        c = pipeline.run_confidence(ds, scores, d / "out", decoys=True, peps_algorithm=alg, rng=1)
        res.count("assign_confidence_calls")
        if not c.ok:
            if c.explicit:
                res["status"] = "refused"
                res["note"] = c.info["msg"]
                return res
            res.violate("crash", c.sig + "/" + alg, msg=c.info["msg"])
            return res
        files = pipeline.read_results(d / "out")
        levels = {}
        for name, df in files.items():
            lvl = name.split(".")[1]
            levels.setdefault(lvl, []).append(df)
        for lvl, dfs in levels.items():
            df = pd.concat(dfs, ignore_index=True)
            pepcol = "posterior_error_prob"
            if pepcol not in df.columns:
                res.violate("missing_pep_column", lvl, columns=list(df.columns))
                continue
            s = df["score"].values.astype(float)
            for kind, dd in faults(df[pepcol].values, s, 0.0, 1.0, "pep"):
                res.violate("file_" + kind, f"{alg}/{lvl}", what=dd)
            # every written row carries the PEP of its own score: one PEP value per distinct score
            res.count("file_rows_checked", len(df))
        if case["index"] % 2 == 0:
            _sqlite_results(res, tab, ds_path=path, scores=scores, alg=alg, files=files, d=d)
    res["nontrivial"] = True
    res["key"] = f"files/{case['seed']}/{case['index']}"
    res["sample"] = {"alg": alg, "levels": sorted(levels)}
    return res


def _sqlite_results(res, tab, ds_path, scores, alg, files, d):
    """The same analysis written to an SQLite result database (assign_confidence(sqlite_path=...)): the stored PEP /
    q-value / score of every PSM and peptide must be those of the text result files, PEPs in [0,1] and score-monotone."""
    import sqlite3

    import pandas as pd
    from vf.instruments import pipeline

    db = d / "results.db"
    con = sqlite3.connect(db)
    con.execute("CREATE TABLE CANDIDATE (CANDIDATE_ID TEXT NOT NULL, PSM_FDR REAL, SVM_SCORE REAL, POSTERIOR_ERROR_PROBABILITY REAL, PRIMARY KEY (CANDIDATE_ID));")
    con.execute("CREATE TABLE PEPTIDE_VALIDATION (PEPTIDE_ID TEXT NOT NULL, FDR REAL, PEP REAL, SVM_SCORE REAL, PRIMARY KEY (PEPTIDE_ID));")
    con.executemany("INSERT INTO CANDIDATE (CANDIDATE_ID) VALUES(?);", [(str(i),) for i in tab["df"]["SpecId"]])
    con.commit()
    con.close()
    ds = pipeline.read_datasets([ds_path])
    c = pipeline.run_confidence(ds, [scores[0].copy()], d / "out_sql", decoys=True, peps_algorithm=alg, rng=1, sqlite_path=db)
    res.count("sqlite_runs")
    if not c.ok:
        if c.explicit:
            res.count("sqlite_refused")
            return
        res.violate("crash", c.sig + "/sqlite/" + alg, msg=c.info["msg"])
        return
    con = sqlite3.connect(db)
    cand = pd.read_sql_query("SELECT * FROM CANDIDATE WHERE SVM_SCORE IS NOT NULL", con)
    pepv = pd.read_sql_query("SELECT * FROM PEPTIDE_VALIDATION", con)
    con.close()
    txt_psm = pd.concat([files["targets.psms"], files["decoys.psms"]], ignore_index=True)
    txt_pep = pd.concat([files["targets.peptides"], files["decoys.peptides"]], ignore_index=True)
    qcol = [c_ for c_ in txt_psm.columns if c_.replace("_", "-") == "q-value"][0]
    for lvl, got, idc, cols, ref, refid in (
        ("psms", cand, "CANDIDATE_ID", ("SVM_SCORE", "PSM_FDR", "POSTERIOR_ERROR_PROBABILITY"), txt_psm, "PSMId"),
        ("peptides", pepv, "PEPTIDE_ID", ("SVM_SCORE", "FDR", "PEP"), txt_pep, "peptide"),
    ):
        if len(got) == 0:
            res.violate("sqlite_level_empty", lvl)
            continue
        s = got[cols[0]].values.astype(float)
        for kind, dd in faults(got[cols[2]].values, s, 0.0, 1.0, "pep"):
            res.violate("sqlite_" + kind, f"{alg}/{lvl}", what=dd)
        r = ref.drop_duplicates(refid).set_index(ref.drop_duplicates(refid)[refid].astype(str))
        g = got.set_index(got[idc].astype(str))
        if set(g.index) != set(r.index):
            res.violate("sqlite_rows_differ_from_text", lvl, only_db=len(set(g.index) - set(r.index)), only_text=len(set(r.index) - set(g.index)))
            continue
        r = r.loc[g.index]
        for dbc, txc in zip(cols, ("score", qcol, "posterior_error_prob")):
            a, b = g[dbc].values.astype(float), r[txc].values.astype(float)
            if not np.allclose(a, b, rtol=1e-6, atol=1e-12):
                bad = int((~np.isclose(a, b, rtol=1e-6, atol=1e-12)).sum())
                res.violate("sqlite_value_differs_from_text", f"{lvl}/{dbc}", rows=bad, example_db=a[~np.isclose(a, b, rtol=1e-6)][:3].tolist(),
                            example_text=b[~np.isclose(a, b, rtol=1e-6)][:3].tolist())
        res.count("sqlite_rows_checked", len(got))


def run_case(case):
    cl = case["class"]
    if cl.startswith("pep_"):
        return _run_alg(case, core.mk("mokapot.peps").peps_from_scores, case["alg"], 0.0, 1.0, "pep")
    if cl.startswith("q_"):
        return _run_alg(case, core.mk("mokapot.qvalues").qvalues_from_scores, case["alg"], 0.0, None, "q")
    if cl == "files":
        return run_files(case)
    res = Result(case, status="probe")
    s, t, _ = gen_mixture(core.seed_seq(1, "p"))
    c = core.Call(core.mk("mokapot.peps").peps_from_scores, s, t, "qvality_bin")
    res["sample"] = {"qvality_bin": "ok" if c.ok else c.sig}
    return res
