"""C19 - PIN -> rectangular TSV conversion is lossless, order-preserving, idempotent;
validity predicate is exact.

Differential monitor: generated PIN texts (structure known to the generator) are
fed to pin_to_valid_tsv / is_valid_tsv; expected output is built from the
generator's structure, never by re-parsing.
"""
from __future__ import annotations

import io

from vf import core
from vf.core import Result

LEVEL = "exploration"
RULE = (
    "pin: generated PIN texts (0..20 feature columns, 1..200 rows, 1..6 proteins per row, protein column "
    "last/middle/first-after-ids/very first, +-DefaultDirection line, +-trailing newline, rectangular and ragged); "
    "valid: arbitrary rectangular/ragged tab texts for the validity predicate. Non-trivial = at least one row "
    "with >=2 proteins (pin) / at least 2 data lines (valid); distinct = distinct generated text hash."
    " Protein separator ':' or a caller-given one (; | , //) through the function and through the module's own command-line entry point (main), the latter also with an output file left by an earlier conversion."
)
ASSUMPTIONS = [
    "fields are non-empty and free of surrounding blanks; header-only files, empty trailing fields and a "
    "lower-case 'proteins' header are probed and reported, not judged",
    "no carriage returns in generated text",
]

TOK = "abcdefghijklmnopqrstuvwxyzABCDEFGHIJKLMNOPQRSTUVWXYZ0123456789_|.-+[]():;"


def _tok(rng, lo=1, hi=10):
    n = int(rng.integers(lo, hi + 1))
    return "".join(rng.choice(list(TOK), size=n))


def gen_pin(rng, sep_protein=":"):
    nfeat = int(rng.integers(0, 21))
    nrows = int(rng.choice([1, 2, 3, 5, 20, 200, 999, 1000, 1001, 2000, 4096], p=[.15, .15, .15, .2, .2, .09, .01, .02, .01, .01, .01]))
    maxprot = int(rng.integers(1, 7))
    pos = rng.choice(["last", "middle", "first", "zero"])
    head = ["SpecId", "Label", "ScanNr"]
    feats = [f"feat{i}" for i in range(nfeat)]
    tail = ["Peptide"]
    cols = head + feats + tail
    if pos == "last":
        idx = len(cols)
    elif pos == "first":
        idx = len(head)
    elif pos == "zero":
        idx = 0  # the protein list opens every line
    else:
        idx = int(rng.integers(len(head), len(cols) + 1))
    cols = cols[:idx] + ["Proteins"] + cols[idx:]
    direction = bool(rng.integers(0, 2))
    trailing_nl = bool(rng.integers(0, 2))
    ragged_allowed = bool(rng.random() < 0.8)
    rows = []
    nmulti = 0
    for r in range(nrows):
        fields = []
        for c in cols:
            if c == "Proteins":
                k = int(rng.integers(1, maxprot + 1)) if ragged_allowed else 1
                # proteins must not contain ':' ambiguity for the expected join -> still fine, join is what we expect
                fields.append([_tok(rng, 2, 12) for _ in range(k)])
                if k > 1:
                    nmulti += 1
            elif c == "Label":
                fields.append(str(int(rng.choice([1, -1]))))
            elif c == "ScanNr":
                fields.append(str(int(rng.integers(1, 10**6))))
            elif c.startswith("feat"):
                fields.append(repr(round(float(rng.normal()), 4)))
            else:
                fields.append(_tok(rng, 3, 14))
        rows.append(fields)
    lines_in = ["\t".join(cols)]
    if direction:
        lines_in.append("\t".join(["DefaultDirection", "-", "-"] + ["0.5"] * nfeat))
    for f in rows:
        flat = []
        for x in f:
            flat.extend(x if isinstance(x, list) else [x])
        lines_in.append("\t".join(flat))
    text = "\n".join(lines_in) + ("\n" if trailing_nl else "")
    lines_out = ["\t".join(cols)]
    for f in rows:
        lines_out.append("\t".join(sep_protein.join(x) if isinstance(x, list) else x for x in f))
    expected = "\n".join(lines_out) + "\n"
    rectangular = (nmulti == 0)
    meta = {"nfeat": nfeat, "nrows": nrows, "pos": pos, "direction": direction, "trailing_nl": trailing_nl,
            "rows_with_multiple_proteins": nmulti}
    return text, expected, (rectangular and not direction), meta


def gen_generic(rng):
    """Arbitrary tab text for the validity predicate."""
    ncol = int(rng.integers(1, 9))
    nrows = int(rng.integers(1, 30))
    lines = ["\t".join(_tok(rng) for _ in range(ncol))]
    valid = True
    mode = rng.choice(["rect", "short", "long", "direction", "late"])
    for r in range(nrows):
        k = ncol
        if mode == "short" and r == int(nrows // 2):
            k = max(1, ncol - 1)
        if mode == "long" and r == nrows - 1:
            k = ncol + int(rng.integers(1, 4))
        if mode == "late" and r == nrows - 1 and nrows > 1:
            k = ncol + 1
        if k != ncol:
            valid = False
        lines.append("\t".join(_tok(rng) for _ in range(k)))
    if mode == "direction":
        lines.insert(1, "\t".join(["DefaultDirection"] + ["-"] * (ncol - 1)))
        valid = False
    text = "\n".join(lines) + ("\n" if rng.integers(0, 2) else "")
    return text, valid, {"mode": str(mode), "ncol": ncol, "nrows": nrows}


def plan(seed, tier):
    n = 40 if tier == "quick" else 4000
    cases = [{"class": "pin", "index": i, "reps": 100, "cost": 1} for i in range(n)]
    cases += [{"class": "valid", "index": i, "reps": 200, "cost": 1} for i in range(n // 2)]
    cases.append({"class": "probe", "cost": 1})
    return cases


MANDATORY_CLASSES = ["pin", "valid"]


def _mod():
    return core.mk("mokapot.parsers.pin_to_tsv")


def _convert(m, text, real_files=None, sep_protein=":", via_main=False, leftover=False):
    kw = {} if sep_protein == ":" else {"sep_protein": sep_protein}
    if real_files is not None and via_main:
        # the module's own command-line entry point (python -m mokapot.parsers.pin_to_tsv in out [--sep_protein x]),
        # possibly with an output file left by an earlier conversion
        import sys

        src = real_files / "in.pin"
        dst = real_files / "out.tsv"
        src.write_text(text)
        if leftover:
            dst.write_text("stale\tcontent\tof an earlier conversion\n")
        argv = sys.argv
        sys.argv = ["pin_to_tsv", str(src), str(dst)] + (["--sep_protein", sep_protein] if kw else [])
        try:
            c = core.Call(m.main)
        finally:
            sys.argv = argv
        return c, (dst.read_text() if dst.exists() else "")
    if real_files is not None:
        # through real file objects, as the command line does
        src = real_files / "in.pin"
        dst = real_files / "out.tsv"
        src.write_text(text)
        with open(src) as fi, open(dst, "w") as fo:
            c = core.Call(m.pin_to_valid_tsv, fi, fo, **kw)
        return c, dst.read_text()
    out = io.StringIO()
    c = core.Call(m.pin_to_valid_tsv, io.StringIO(text), out, **kw)
    return c, out.getvalue()


def run_pin(case):
    import hashlib

    m = _mod()
    rng = core.seed_seq(case["seed"], "C19", "pin", case["index"])
    res = Result(case)
    keys = set()
    nt = evals = 0
    for rep in range(case["reps"]):
        # protein separator: the default, or another one given by the caller (documented option of function and tool)
        sepp = str(rng.choice([":", ":", ";", "|", ",", "//"]))
        text, expected, is_valid, meta = gen_pin(rng, sepp)
        meta["sep_protein"] = sepp
        evals += 1
        if rep % 4 == 3:
            via_main = bool(rep % 8 == 7)
            leftover = bool(via_main and rep % 16 == 15)
            meta["entry"] = "main" if via_main else "files"
            meta["leftover_output"] = leftover
            if via_main:
                res.count("tool_runs")
            with core.scratch("c19") as dd:
                c, got = _convert(m, text, real_files=dd, sep_protein=sepp, via_main=via_main, leftover=leftover)
        else:
            c, got = _convert(m, text, sep_protein=sepp)
        if not c.ok:
            res.violate("crash", c.sig, msg=c.info["msg"], text=text[:600], meta=meta)
            continue
        if got != expected:
            gl, el = got.split("\n"), expected.split("\n")
            bad = next((i for i, (a, b) in enumerate(zip(gl, el)) if a != b), min(len(gl), len(el)))
            res.violate("conversion", f"pos={meta['pos']},dir={meta['direction']}", line=bad,
                        got=gl[bad:bad + 1], expected=el[bad:bad + 1], n_got=len(gl), n_expected=len(el), meta=meta,
                        text=text[:400])
            continue
        v = core.Call(m.is_valid_tsv, io.StringIO(got))
        res.count("validity_calls")
        if not v.ok:
            res.violate("crash", v.sig, where="is_valid_tsv(output)", meta=meta)
        elif v.value is not True:
            res.violate("output_not_valid", meta["pos"], meta=meta, output=got[:400])
        c2, got2 = _convert(m, got, sep_protein=sepp)
        if c2.ok and got2 != got:
            res.violate("not_idempotent", meta["pos"], meta=meta)
        elif not c2.ok:
            res.violate("crash", c2.sig, where="reconvert", meta=meta)
        v = core.Call(m.is_valid_tsv, io.StringIO(text))
        res.count("validity_calls")
        if v.ok and bool(v.value) != is_valid:
            res.violate("validity", f"said {v.value}", meta=meta, text=text[:400])
        elif not v.ok:
            res.violate("crash", v.sig, where="is_valid_tsv(input)", meta=meta)
        if meta["rows_with_multiple_proteins"] > 0:
            nt += 1
            keys.add(hashlib.sha1(text.encode()).hexdigest())
        if rep == 0:
            res["sample"] = {"meta": meta, "text_head": text[:300]}
    res["evals"] = evals
    res["distinct_n"] = len(keys)
    res["nontrivial"] = nt > 0
    return res


def run_valid(case):
    m = _mod()
    rng = core.seed_seq(case["seed"], "C19", "valid", case["index"])
    res = Result(case)
    evals = nt = 0
    seen = set()
    for rep in range(case["reps"]):
        text, valid, meta = gen_generic(rng)
        evals += 1
        v = core.Call(m.is_valid_tsv, io.StringIO(text))
        if not v.ok:
            res.violate("crash", v.sig, msg=v.info["msg"], text=text[:400], meta=meta)
            continue
        if bool(v.value) != valid:
            res.violate("validity", f"{meta['mode']}: said {v.value}", text=text[:500], meta=meta)
        if meta["nrows"] >= 2 and hash(text) not in seen:
            seen.add(hash(text))
            nt += 1
    res["evals"] = evals
    res["distinct_n"] = nt
    res["nontrivial"] = nt > 0
    return res


def run_probe(case):
    m = _mod()
    res = Result(case, status="probe")
    probes = {}
    for name, text in {"header_only": "SpecId\tLabel\tScanNr\tPeptide\tProteins\n",
                       "empty_trailing_field": "SpecId\tLabel\tScanNr\tPeptide\tProteins\na\t1\t2\tPEP\t\n",
                       "lowercase_proteins": "SpecId\tLabel\tScanNr\tPeptide\tproteins\na\t1\t2\tPEP\tx\ty\n"}.items():
        c, got = _convert(m, text)
        probes[name] = got if c.ok else c.sig
    res["sample"] = probes
    return res


def run_case(case):
    return {"pin": run_pin, "valid": run_valid, "probe": run_probe}[case["class"]](case)
