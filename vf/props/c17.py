"""C17 - in-silico digestion returns exactly the peptides the enzyme rules allow.

Reference-model differential monitor on mokapot.digest: exhaustive over all
sequences of a 4-letter alphabet (cleavage residue, blocker P, M, neutral) up to a
length bound x the full parameter grid, seeded draws beyond, random long
sequences; plus direct monotonicity / substring checks on the returned sets.
"""
from __future__ import annotations

import itertools
import re

import numpy as np

from vf import core
from vf.core import Result

LEVEL = "exploration"
RULE = (
    "grid: every sequence over a 4-letter alphabet up to length L x 8 documented enzymes x missed cleavages 0..3 x "
    "all 1<=min<=max<=7 x clip x semi; draws: every sequence of length L+1..M with k seeded parameter draws; "
    "long: random sequences to length 300; flags: case-insensitive compiled patterns interleaved with plain strings of the same text in one process. Non-trivial = the expected digest is non-empty and the sequence has an "
    "interior cleavage site; distinct = distinct (sequence, enzyme, parameters)."
)
ASSUMPTIONS = [
    "min_length=0 (empty peptide) is probed and reported, not judged",
    "semi-enzymatic prefixes of the methionine-clipped form are accepted either way (statement is ambiguous there)",
    "enzymes limited to the documented table; zero-width patterns are not generated",
]
CASE_TIMEOUT = 1200


def EXHAUSTIVE(tier):
    return True


# enzyme -> (cleave-after predicate, concrete alphabet)
def _after(chars, not_before=None):
    def f(s, i):
        if s[i] not in chars:
            return False
        if not_before is not None and i + 1 < len(s) and s[i + 1] == not_before:
            return False
        return True
    return f


def _before(ch):
    def f(s, i):
        return i + 1 < len(s) and s[i + 1] == ch  # '.' consumed at i, look-ahead for ch
    return f


ENZYMES = {
    "[KR]": (_after("KR"), "KPMA", "R"),
    "[KR](?!P)": (_after("KR", "P"), "KPMA", "R"),
    "K(?!P)": (_after("K", "P"), "KPMR", None),
    ".(?=K)": (_before("K"), "KPMA", None),
    ".(?=D)": (_before("D"), "DPMA", None),
    "M": (_after("M"), "MPKA", None),
    "[DE](?!P)": (_after("DE", "P"), "DPME", "E"),
    "[FWYL](?!P)": (_after("FWYL", "P"), "FPMA", "W"),
}


def sites_ref(seq, enzyme):
    pred = ENZYMES[enzyme][0]
    s = {0, len(seq)}
    for i in range(len(seq)):
        if pred(seq, i):
            s.add(i + 1)
    return sorted(s)


def digest_ref(seq, sites, mc, clip, minl, maxl, semi):
    """(required, allowed) sets."""
    req = set()
    opt = set()
    k = len(sites)
    for a in range(k):
        for b in range(a + 1, min(k, a + mc + 2)):
            pep = seq[sites[a]:sites[b]]
            L = len(pep)
            if L < minl or L > maxl or L == 0:
                continue
            req.add(pep)
            if clip and sites[a] == 0 and pep[0] == "M" and L - 1 >= minl and L - 1 >= 1:
                req.add(pep[1:])
                if semi:
                    c = pep[1:]
                    for j in range(1, len(c)):
                        if len(c) - j >= minl:
                            opt.add(c[:-j])
            if semi:
                for j in range(1, L):
                    if L - j >= minl:
                        req.add(pep[j:])
                        req.add(pep[:-j])
    return req, req | opt


def plan(seed, tier):
    cases = []
    Lgrid = 5 if tier == "quick" else 7
    Ldraw = 8 if tier == "quick" else 10
    draws = 6 if tier == "quick" else 16
    for enz in ENZYMES:
        for L in range(0, Lgrid + 1):
            parts = 1 if L < 4 else (4 if L == 4 else (16 if L == 5 else 64))
            for p in range(parts):
                cases.append({"class": "grid", "enzyme": enz, "L": L, "part": p, "parts": parts,
                              "cost": 4 ** L / 50})
    for L in range(Lgrid + 1, Ldraw + 1):
        parts = max(1, 4 ** L // 16384)
        for p in range(parts):
            cases.append({"class": "draws", "L": L, "part": p, "parts": parts, "draws": draws,
                          "cost": 4 ** L / parts / 100})
    for i in range(16 if tier == "quick" else 800):
        cases.append({"class": "long", "index": i, "reps": 150, "cost": 5})
    for i in range(4 if tier == "quick" else 40):
        cases.append({"class": "flags", "index": i, "reps": 200, "cost": 2})
    cases.append({"class": "probe_min0", "cost": 1})
    return cases


MANDATORY_CLASSES = ["grid", "draws", "long", "flags"]


def _digest():
    return core.import_mokapot().digest


GRID = [(mc, mn, mx, clip, semi) for mc in range(4) for mn in range(1, 8) for mx in range(mn, 8)
        for clip in (False, True) for semi in (False, True)]


def _judge(res, digest, seq, enz, sites, params):
    mc, mn, mx, clip, semi = params
    c = core.Call(digest, seq, enzyme_regex=enz, missed_cleavages=mc, clip_nterm_methionine=clip,
                  min_length=mn, max_length=mx, semi=semi)
    wit = dict(seq=seq, enzyme=enz, missed_cleavages=mc, min_length=mn, max_length=mx, clip=clip, semi=semi)
    if not c.ok:
        res.violate("crash", c.sig, msg=c.info["msg"], **wit)
        return None, None
    got = set(c.value)
    _judge.n = getattr(_judge, "n", 0) + 1
    if _judge.n % 4 == 0 and isinstance(c.value, set):
        # the caller owns what digest() hands out: it edits the returned set in place (union with another protein's
        # peptides, filtering), then digests the same sequence with the same settings again
        c.value.add("#FOREIGN#")
        if got:
            c.value.discard(min(got))
        c2 = core.Call(digest, seq, enzyme_regex=enz, missed_cleavages=mc, clip_nterm_methionine=clip,
                       min_length=mn, max_length=mx, semi=semi)
        res.count("repeat_after_caller_edit")
        if c2.ok and set(c2.value) != got:
            res.violate("result_aliases_internal_state", f"clip={clip},semi={semi}", first=sorted(got)[:20],
                        second=sorted(set(c2.value))[:20], **wit)
    req, allowed = digest_ref(seq, sites, mc, clip, mn, mx, semi)
    if not (req <= got):
        res.violate("missing_peptide", f"clip={clip},semi={semi}", missing=sorted(req - got)[:8], got=sorted(got)[:20], **wit)
    elif not (got <= allowed):
        res.violate("extra_peptide", f"clip={clip},semi={semi}", extra=sorted(got - allowed)[:8], expected=sorted(req)[:20], **wit)
    return got, req


def run_grid(case):
    digest = _digest()
    enz = case["enzyme"]
    alpha = ENZYMES[enz][1]
    alt = ENZYMES[enz][2]
    res = Result(case, key=f"grid/{enz}/{case['L']}/{case['part']}")
    evals = nt = 0
    rx = re.compile(enz)
    sample = None
    for idx, tup in enumerate(itertools.product(alpha, repeat=case["L"])):
        if idx % case["parts"] != case["part"]:
            continue
        seq = "".join(tup)
        if alt and idx % 3 == 1:
            seq = seq.replace(alpha[0], alt, 1)  # second member of the residue class
        sites = sites_ref(seq, enz)
        for gi, params in enumerate(GRID):
            # alternate str / compiled pattern
            got, req = _judge(res, digest, seq, rx if (gi + idx) % 2 else enz, sites, params)
            evals += 1
            if req and len(sites) > 2:
                nt += 1
                if sample is None and len(req) > 2:
                    sample = {"seq": seq, "enzyme": enz, "params": params, "digest": sorted(got or [])}
        if len(res["violations"]) > 10:
            break
    res["evals"] = evals
    res["distinct_n"] = nt
    res["nontrivial"] = nt > 0
    res["sample"] = sample
    return res


def _draw(rng):
    mc = int(rng.integers(0, 4))
    mn = int(rng.integers(1, 8))
    mx = int(rng.integers(mn, 12))
    return (mc, mn, mx, bool(rng.integers(0, 2)), bool(rng.integers(0, 2)))


def run_draws(case):
    digest = _digest()
    rng = core.seed_seq(case["seed"], "C17", "draws", case["L"], case["part"])
    res = Result(case, key=f"draws/{case['L']}/{case['part']}")
    enzs = list(ENZYMES)
    evals = nt = 0
    for idx, tup in enumerate(itertools.product(range(4), repeat=case["L"])):
        if idx % case["parts"] != case["part"]:
            continue
        for d in range(case["draws"]):
            enz = enzs[(idx + d) % len(enzs)]
            alpha = ENZYMES[enz][1]
            seq = "".join(alpha[t] for t in tup)
            sites = sites_ref(seq, enz)
            got, req = _judge(res, digest, seq, enz, sites, _draw(rng))
            evals += 1
            if req and len(sites) > 2:
                nt += 1
        if len(res["violations"]) > 10:
            break
    res["evals"] = evals
    res["distinct_n"] = nt
    res["nontrivial"] = nt > 0
    return res


def run_long(case):
    digest = _digest()
    rng = core.seed_seq(case["seed"], "C17", "long", case["index"])
    res = Result(case, key=f"long/{case['seed']}/{case['index']}")
    enzs = list(ENZYMES)
    evals = nt = 0
    for rep in range(case["reps"]):
        enz = enzs[(case["index"] + rep) % len(enzs)]
        alpha = ENZYMES[enz][1] + "GLSTV" + (ENZYMES[enz][2] or "")
        L = int(rng.integers(1, 300))
        pcut = rng.choice([0.02, 0.1, 0.3])
        probs = np.full(len(alpha), (1 - pcut) / (len(alpha) - 1))
        probs[0] = pcut
        seq = "".join(rng.choice(list(alpha), size=L, p=probs))
        if rep % 4 == 0:
            seq = "M" + seq
        mc = int(rng.integers(0, 4))
        mn = int(rng.integers(1, 12))
        mx = int(rng.integers(mn, 60))
        clip = bool(rng.integers(0, 2))
        semi = bool(rng.integers(0, 2)) and L < 120
        sites = sites_ref(seq, enz)
        got, req = _judge(res, digest, seq, enz, sites, (mc, mn, mx, clip, semi))
        evals += 1
        if got is None:
            continue
        if req and len(sites) > 2:
            nt += 1
        # direct checks on returned sets
        for p in got:
            if p not in seq:
                res.violate("not_substring", enz, seq=seq, peptide=p)
                break
        for relax, kw in (("mc", dict(missed_cleavages=mc + 1)), ("max", dict(max_length=mx + 3)),
                          ("min", dict(min_length=max(1, mn - 2))), ("semi", dict(semi=True))):
            if relax == "semi" and L >= 120:
                continue
            base = dict(enzyme_regex=enz, missed_cleavages=mc, clip_nterm_methionine=clip, min_length=mn,
                        max_length=mx, semi=semi)
            base.update(kw)
            c = core.Call(digest, seq, **base)
            res.count("relaxation_calls")
            if c.ok and not (got <= set(c.value)):
                res.violate("not_monotone", relax, seq=seq, enzyme=enz, lost=sorted(got - set(c.value))[:5],
                            params=[mc, mn, mx, clip, semi])
    res["evals"] = evals
    res["distinct_n"] = nt
    res["nontrivial"] = nt > 0
    return res


def run_flags(case):
    """Compiled patterns carrying flags, interleaved in one process with plain strings of the same text: a
    case-insensitive lower-case pattern cleaves like its upper-case twin, the plain lower-case string cleaves nowhere."""
    digest = _digest()
    rng = core.seed_seq(case["seed"], "C17", "flags", case["index"])
    res = Result(case, key=f"flags/{case['seed']}/{case['index']}")
    enzs = [e for e in ENZYMES if e not in (".(?=K)", ".(?=D)")]
    evals = nt = 0
    for rep in range(case["reps"]):
        enz = enzs[int(rng.integers(0, len(enzs)))]
        alpha = ENZYMES[enz][1] + "GLSTV"
        L = int(rng.integers(1, 40))
        seq = "".join(rng.choice(list(alpha), size=L))
        low = enz.lower()
        params = _draw(rng)
        form = int(rng.integers(0, 3))
        if form == 0:      # flagged compiled pattern: behaves like the upper-case enzyme
            sites = sites_ref(seq, enz)
            got, req = _judge(res, digest, seq, re.compile(low, re.IGNORECASE), sites, params)
        elif form == 1:    # plain lower-case string on an upper-case sequence: no cleavage site at all
            sites = [0, len(seq)] if len(seq) else [0]
            got, req = _judge(res, digest, seq, low, sorted(set(sites)), params)
        else:              # the ordinary upper-case string
            sites = sites_ref(seq, enz)
            got, req = _judge(res, digest, seq, enz, sites, params)
        evals += 1
        if req:
            nt += 1
        if len(res["violations"]) > 5:
            break
    res["evals"] = evals
    res["distinct_n"] = nt
    res["nontrivial"] = nt > 0
    return res


def run_probe(case):
    digest = _digest()
    res = Result(case, status="probe")
    c = core.Call(digest, "AAKBBK", enzyme_regex="[KR]", min_length=0, max_length=10)
    res["sample"] = {"probe": "min_length=0 on 'AAKBBK'", "result": sorted(c.value) if c.ok else c.sig}
    return res


def run_case(case):
    return {"grid": run_grid, "draws": run_draws, "long": run_long, "flags": run_flags, "probe_min0": run_probe}[case["class"]](case)
