"""C11 - per-fold score calibration is order preserving and anchors 0 and -1.

History + model: fold membership and raw model outputs are recovered from the
recording estimator's log; per (file, fold) the returned scores must equal
(raw - a)/(a - m) with a = lowest raw score of a target accepted at test_fdr (q from
the real tdc on that fold's raw scores) and m = median raw decoy score. A second run
with an evaluation FDR chosen so that some fold accepts no target must end in an
explicit refusal.
"""
from __future__ import annotations

import numpy as np

from vf import core
from vf.core import Result
from vf.gens import psm
from vf.instruments import pipeline
from vf.oracles import cv

LEVEL = "exploration"
RULE = (
    "brew() with decision_function learners {linear, svc} x folds 2..6 x test_fdr {0.01,0.05,0.2,0.25,0.5} (the last two exactly representable, so that q == threshold occurs) x 1..2 files x "
    "text/Parquet x workers {1,3}; per (file, fold): exact affine relation, slope>0, anchors; then the same "
    "run repeated with test_fdr placed between the smallest and largest per-fold minimum target q-value (some "
    "fold accepts nothing) must raise. Non-trivial = >= 2 folds with >= 5 accepted targets each; distinct = case parameters."
    " cli: mokapot.mokapot.main with --test_fdr != --train_fdr, its built-in model replaced by the recording model (vf.instruments.pipeline.cli_recording), judged at the command line's test FDR."
    " A third of the tables have coarse features (exactly tied model outputs, also across labels and at the cut-off); a sixth are not shuffled."
    " A quarter of the cases predict in chunks leaving 1..3 trailing rows; a row scored and calibrated by a model whose training rows include it is a violation."
)
ASSUMPTIONS = [
    "accepted targets per fold are computed with mokapot.qvalues.tdc on the recorded raw outputs (its correctness is C01's business)",
    "the refusal's exception type and text are not judged, only that no scores are returned",
    "folds whose lowest accepted target is not above the decoy median are outside the statement's quantifier (counted as folds_anchor_not_above_decoy_median)",
]
CASE_TIMEOUT = 600


def plan(seed, tier):
    n = 40 if tier == "quick" else 3000
    cases = []
    prng = core.seed_seq(seed, "C11", "plan")
    for i in range(n):
        # 0.25 and 0.5 are exactly representable in float32, the precision in which tdc stores (d+1)/t: only there
        # can a target's q-value *equal* the threshold
        cases.append({"class": "calibration", "index": i, "folds": int(2 + i % 5),
                      "test_fdr": float(prng.choice([0.01, 0.05, 0.2, 0.25, 0.5])),
                      "learner": ["linear", "svc"][(i // 3) % 2], "nfiles": [1, 2][(i // 4) % 2],
                      "fmt": ["pin", "parquet"][(i // 5) % 2], "workers": [1, 3][(i // 2) % 2], "cost": 3})
    for i in range(4 if tier == "quick" else 48):
        cases.append({"class": "cli", "index": i, "cost": 12})
    return cases


MANDATORY_CLASSES = ["calibration", "cli"]


def per_fold(tabs, log):
    """{(file, uid): (positions, raw, targets)}"""
    fin = cv.final_outputs(log)
    groups = {}
    for fi, tab in enumerate(tabs):
        rids = tab["df"]["rid"].tolist()
        targ = tab["truth"]["is_target"].values
        for pos, r in enumerate(rids):
            if r in fin:
                u, raw = fin[r]
                g = groups.setdefault((fi, u), ([], [], []))
                g[0].append(pos)
                g[1].append(raw)
                g[2].append(bool(targ[pos]))
    return {k: (np.array(v[0]), np.array(v[1]), np.array(v[2])) for k, v in groups.items()}


def judge(res, tdc, tabs, out, test_fdr, extra):
    """Judge one finished brew run (API or CLI) from the estimator log. Returns (minq, good_folds) or None when the run
    ended in a state that was fully judged already (crash, refusal, fall-back)."""
    groups = per_fold(tabs, out.get("log", []))
    # "fold" means the rows a model did not train on: a row that is scored (and calibrated) by a model whose training
    # rows include it was calibrated with a fold it does not belong to
    training, _final = cv.split_log(out.get("log", []))
    trained_on = {}
    for e in training:
        trained_on.setdefault(e["uid"], set()).update(int(r) for r in e["rids"])
    for (fi, uid), (pos, raw, t) in groups.items():
        rids = tabs[fi]["df"]["rid"].values[pos]
        leak = [int(r) for r in rids.tolist() if int(r) in trained_on.get(uid, ())]
        if leak and out["status"] == "ok":
            res.violate("row_calibrated_with_a_fold_it_does_not_belong_to", "", file=fi, model=uid, rows=len(leak), example_rids=leak[:4], **extra)
            return None
    # expected behaviour from the recorded raw outputs
    minq = {}
    expected = {}
    for key, (pos, raw, t) in groups.items():
        if not t.any() or t.all():
            continue
        q = np.asarray(tdc(raw.astype(float), t, desc=True))
        minq[key] = float(q[t].min())
        acc = t & (q <= test_fdr)
        if acc.any():
            a = raw[acc].min()
            m = np.median(raw[~t])
            expected[key] = ((raw - a) / (a - m), a, m, int(acc.sum()))
            if np.any(q[acc] == np.float32(test_fdr)):
                res.count("folds_with_q_equal_to_threshold")
        else:
            expected[key] = None
    must_refuse = any(v is None for v in expected.values()) and len(expected) > 0
    if out["status"].startswith("crash"):
        res.violate("crash", out["sig"], msg=out["error"]["msg"], **extra)
        return None
    if out["status"].startswith("refused"):
        res["status"] = "refused"
        res["note"] = out["error"]["msg"]
        if groups and not must_refuse and "calibrate" in out["error"]["msg"].lower():
            res.violate("refused_although_every_fold_accepts", "", minq={str(k): v for k, v in minq.items()}, **extra)
        return None
    # run returned scores
    fell_back = any(np.asarray(s).ndim != 1 for s in out["scores"])
    if fell_back or not groups:
        res.count("fallback_or_untrained_runs")
        res["status"] = "refused"
        return None
    if must_refuse:
        res.violate("scores_returned_without_accepted_target", "first_run",
                    folds_without=[str(k) for k, v in expected.items() if v is None], **extra)
        return None
    good_folds = 0
    for key, (pos, raw, t) in groups.items():
        if key not in expected:
            continue
        exp, a, m, nacc = expected[key]
        if not a > m:
            # lowest accepted target not above the decoy median: an increasing affine map cannot send
            # a -> 0 and m -> -1, the statement's clauses contradict each other there; its quantifier
            # ("every fold accepts ... above the decoy median") excludes this. Counted, not judged.
            res.count("folds_anchor_not_above_decoy_median")
            continue
        ret = np.asarray(out["scores"][key[0]], dtype=float)[pos]
        res.count("folds_checked")
        if nacc >= 5:
            good_folds += 1
        if not np.allclose(ret, exp, rtol=1e-9, atol=1e-9):
            # describe what relation does hold
            A = np.column_stack([raw, np.ones_like(raw)])
            coef, *_ = np.linalg.lstsq(A, ret, rcond=None)
            resid = float(np.abs(A @ coef - ret).max())
            at_a = float(ret[np.argmin(np.abs(raw - a))])
            res.violate("calibration", "affine_but_wrong_anchor" if resid < 1e-7 and coef[0] > 0 else
                        ("order_not_preserved" if coef[0] <= 0 or resid >= 1e-7 else "other"),
                        fold=str(key), slope=float(coef[0]), residual=resid, returned_at_lowest_accepted=at_a,
                        expected_anchor_raw=float(a), decoy_median_raw=float(m), n_accepted=nacc, **extra)
            break
        # stated consequences, checked directly on the returned values
        o = np.argsort(raw, kind="stable")
        # (float division may map raw outputs one ulp apart to the same value: equality is not a
        # ranking change, a strict decrease is)
        if np.any(np.diff(ret[o])[np.diff(raw[o]) > 0] < 0):
            res.violate("calibration", "ranking_changed", fold=str(key), **extra)
            break
    return minq, good_folds


def run_cli(case):
    """The command-line tool with --test_fdr different from --train_fdr: the per-fold calibration must use the
    evaluation FDR given on the command line. The built-in model is replaced by the recording linear model
    (vf.instruments.pipeline.cli_recording) so that folds and raw outputs are known."""
    tdc = core.mk("mokapot.qvalues").tdc
    rng = core.seed_seq(case["seed"], "C11", "cli", case["index"])
    res = Result(case)
    train_fdr, test_fdr = [(0.01, 0.05), (0.05, 0.01), (0.01, 0.1), (0.1, 0.02)][case["index"] % 4]
    with core.scratch("c11c") as d:
        tabs, paths = [], []
        for fi in range(1 + case["index"] % 2):
            tab = psm.psm_table(rng, n_spectra=int(rng.integers(700, 1000)) * 2, mult_max=2, key_cols=("ExpMass",), file_index=fi,
                                sep_strength=float(rng.choice([3.0, 4.0])), pi1=0.6)
            tabs.append(tab)
            paths.append(psm.write_pin(tab, d / f"f{fi}.pin"))
        args = [*paths, "--dest_dir", d / "out", "--seed", int(rng.integers(1 << 20)), "--folds", int(2 + case["index"] % 2), "--max_iter", 2,
                "--train_fdr", train_fdr, "--test_fdr", test_fdr, "-v", 0, "--max_workers", 1, "--override"]
        with pipeline.cli_recording(tabs[0]["features"], learner=["linear", "svc"][case["index"] % 2]) as spy:
            c = core.Call(core.mk("mokapot.mokapot").main, [str(a) for a in args])
        res.count("cli_runs")
        extra = dict(train_fdr=train_fdr, test_fdr=test_fdr, nfiles=len(tabs), entry="cli")
        out = {"log": spy.log(), "status": "ok"}
        if spy.brew_result is None:
            if not c.ok:
                out.update(status="refused" if c.explicit else "crash", error=c.info, sig=c.sig)
            else:
                res["status"] = "inconclusive"
                res["note"] = "brew was not called through mokapot.mokapot.brew"
                return res
        else:
            out["scores"] = [np.asarray(x, dtype=float) for x in spy.brew_result[2]]
            if not c.ok and not c.explicit:
                res.violate("crash", c.sig, msg=c.info["msg"], **extra)
                return res
        j = judge(res, tdc, tabs, out, test_fdr, extra)
        if j is None:
            return res
        minq, good_folds = j
        res["nontrivial"] = good_folds >= 2
        res["sample"] = dict(extra, folds_checked=len(minq))
    return res


def run_case(case):
    if case["class"] == "cli":
        return run_cli(case)
    tdc = core.mk("mokapot.qvalues").tdc
    rng = core.seed_seq(case["seed"], "C11", case["index"])
    res = Result(case)
    with core.scratch("c11") as d:
        tabs, paths = [], []
        for fi in range(case["nfiles"]):
            nsp = int(rng.integers(150, 260) * (3 if case["test_fdr"] < 0.05 else 1)) * case["folds"]
            # a third of the tables have coarse features: identical feature rows give exactly tied model outputs, also
            # between targets and decoys and also at the acceptance cut-off
            tab = psm.psm_table(rng, n_spectra=nsp, mult_max=2, key_cols=("ExpMass",), file_index=fi,
                                sep_strength=float(rng.choice([3.0, 4.0])), pi1=0.6, ties=bool(case["index"] % 3 == 2),
                                shuffle=bool(case["index"] % 6 != 5))
            tabs.append(tab)
            paths.append(psm.write_parquet(tab, d / f"f{fi}.parquet", row_group_size=int(rng.integers(10, 500)))
                         if case["fmt"] == "parquet" else psm.write_pin(tab, d / f"f{fi}.pin"))
        seed = int(rng.integers(1 << 30))
        # train_fdr = test_fdr (as in the CLI defaults) so that the best-feature comparison is like for like;
        # every second case forces use of the model (override) so that calibration is observed even
        # where the safety net of C07 would replace the scores
        kw = dict(learner=case["learner"], folds=case["folds"], seed=seed, train_fdr=case["test_fdr"],
                  max_workers=case["workers"], max_iter=2, delay=0.003 if case["workers"] > 1 else 0.0,
                  override=bool(case["index"] % 2))
        # multi-worker cases predict in several chunks under a perturbed task schedule: a fold's score blocks must still
        # line up with its rows
        nmin = min(len(t["df"]) for t in tabs)
        sizes = {"CHUNK_SIZE_ROWS_PREDICTION": max(5, nmin // int(rng.integers(3, 7)))} if case["workers"] > 1 or case["index"] % 5 == 0 else {}
        if case["index"] % 4 == 1:
            # a prediction chunk size that leaves 1..3 rows in the last chunk of the smallest collection (a chunk that
            # cannot contain every fold)
            k = int(rng.integers(2, 5))
            sizes = {"CHUNK_SIZE_ROWS_PREDICTION": max(2, (nmin - 1) // k)}
        kw["perturb"] = int(rng.integers(1 << 30))
        with core.chunk_sizes(**sizes):
            # a third of the runs follow an earlier analysis of other data at the same paths in this process (DESIGN 3.8)
            out = pipeline.run_brew(paths, test_fdr=case["test_fdr"],
                                    history=(case["seed"] + case["index"]) if case["index"] % 3 == 2 else None, **kw)
        if out.get("history_prelude_completed"):
            res.count("runs_after_history_prelude")
        res.count("task_kinds_finished_out_of_order", out.get("sched_out_of_order", 0))
        extra = {k: case[k] for k in ("folds", "test_fdr", "learner", "nfiles", "fmt", "workers")}
        extra["chunks"] = sizes
        j = judge(res, tdc, tabs, out, case["test_fdr"], extra)
        if j is None:
            return res
        minq, good_folds = j
        res["nontrivial"] = good_folds >= 2
        res["sample"] = dict(extra, folds_checked=len(minq), min_q_per_fold={str(k): round(v, 4) for k, v in minq.items()})
        # second run: same seed (same folds, same raw outputs), evaluation FDR between per-fold minima
        vals = sorted(set(minq.values()))
        if len(vals) >= 2 and vals[0] < vals[-1]:
            fdr2 = float((vals[0] + vals[1]) / 2) if vals[1] > vals[0] else None
            if fdr2 and fdr2 < 1:
                with core.chunk_sizes(**sizes):
                    out2 = pipeline.run_brew(paths, test_fdr=fdr2, **kw)
                res.count("engineered_refusal_runs")
                if out2["status"] == "ok" and not any(np.asarray(s).ndim != 1 for s in out2["scores"]):
                    # make sure the premise still holds in the second run's own log
                    g2 = per_fold(tabs, out2.get("log", []))
                    none_acc = []
                    for key, (pos, raw, t) in g2.items():
                        if t.any() and not t.all():
                            q = np.asarray(tdc(raw.astype(float), t, desc=True))
                            if not (t & (q <= fdr2)).any():
                                none_acc.append(str(key))
                    if none_acc:
                        res.violate("scores_returned_without_accepted_target", "engineered", engineered_test_fdr=fdr2,
                                    folds_without=none_acc, **extra)
                elif out2["status"].startswith("crash"):
                    res.violate("crash", out2["sig"] + "/engineered", msg=out2["error"]["msg"], **extra)
                else:
                    res.count("engineered_refusals_observed")
    return res
