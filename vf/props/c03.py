"""C03 - competition and rollup keep exactly the best PSM per spectrum / per entity.

Differential monitor on the files written by assign_confidence, by the CLI and by the
stand-alone rollup tool: every output row is traced back to its input PSM (unique
ids), retained sets are judged against a dictionary group-by model (tie tolerant),
q-values against the C01 formula over exactly the retained rows.
"""
from __future__ import annotations

import numpy as np
import pandas as pd

from vf import core
from vf.core import Result
from vf.gens import psm
from vf.instruments import pipeline
from vf.oracles import compete

LEVEL = "exploration"
RULE = (
    "confidence: assign_confidence on generated tables (spectrum multiplicity 1..6, peptide repeats, extra level "
    "columns, tie-free and tie-heavy scores) x dedup on/off x rollup on/off x decoys on/off x 1..3 collections "
    "with/without prefixes x text/Parquet x confidence chunk size {1,7,0.4n,0.6n,n-1,n,n+1,default} (independent draws); rollup_tool: "
    "brew_rollup.main over 1..3 previously written result sets; cli: python -m mokapot.mokapot with "
    "--skip_deduplication/--skip_rollup/--keep_decoys, judged with the scores of an all-PSM run of the same seed. "
    "Non-trivial = >=1 spectrum and >=1 peptide with multiplicity >=2 whose best and second-best rows differ in "
    "label or peptide; distinct = case parameters."
    " cli_multi: the command-line tool on 2..3 PIN files named in non-sorted order (with / without --file_root, 1..2 workers): per-stem result files hold that file's PSMs only and are judged like a single collection."
    " rollup_tool collections are named set<i> / rollup_<i> / run<i> with --file_root run / set<i> with --file_root se."
    " Every third confidence table has a quarter of its PSMs without protein annotation (empty cell)."
)
ASSUMPTIONS = [
    "output column names are read from the written header; only PSMId, peptide, proteinIds, score, q-value and the level columns are interpreted",
    "with ties any maximum-score row of a group is accepted; higher levels are judged relative to the PSM rows actually retained",
    "PEP column: only C06's file-level clauses apply (checked there)",
]
CASE_TIMEOUT = 900
LEVELSETS = [(), ("ModifiedPeptide",), ("ModifiedPeptide", "Precursor"), ("PeptideGroup",), ("ModifiedPeptide", "Precursor", "PeptideGroup")]


def plan(seed, tier):
    n = 60 if tier == "quick" else 900
    cases = []
    for i in range(n):
        # independent draws (modular index arithmetic correlates parameters whose periods share a factor)
        r = core.seed_seq(seed, "C03", "plan", i)
        cases.append({"class": "confidence", "index": i, "dedup": bool(r.random() < 0.6), "rollup": bool(r.random() < 0.7),
                      "decoys": bool(r.random() < 0.75), "ncoll": int(r.choice([1, 1, 2, 3])), "prefixes": bool(r.integers(0, 2)),
                      "fmt": str(r.choice(["pin", "parquet"])),
                      "chunk": [int(x) if str(x).isdigit() else str(x) for x in [r.choice(["default", "1", "7", "n-1", "n", "n+1", "0.6n", "0.4n"])]][0],
                      "levels": list(LEVELSETS[int(r.integers(0, len(LEVELSETS)))]), "ties": bool(r.random() < 0.4), "cost": 4})
    m = 10 if tier == "quick" else 100
    for i in range(m):
        cases.append({"class": "rollup_tool", "index": i, "nsets": 1 + i % 3, "levels": list(LEVELSETS[i % len(LEVELSETS)]),
                      "ties": bool(i % 4 == 3), "cost": 8})
    k = 6 if tier == "quick" else 40
    for i in range(k):
        cases.append({"class": "cli", "index": i, "cost": 25})
    for i in range(4 if tier == "quick" else 24):
        cases.append({"class": "cli_multi", "index": i, "cost": 30})
    return cases


MANDATORY_CLASSES = ["confidence", "rollup_tool", "cli", "cli_multi"]


def _input_frame(tab, scores):
    df = tab["df"].copy()
    df["_target"] = tab["truth"]["is_target"].values
    df["_score"] = np.asarray(scores, dtype=float)
    df["SpecId"] = df["SpecId"].astype(str)
    return df


def _nontrivial(inp, spec_cols):
    g = inp.sort_values("_score", ascending=False).groupby([inp[c].astype(str) for c in spec_cols], sort=False)
    for _, grp in g:
        if len(grp) >= 2:
            a, b = grp.iloc[0], grp.iloc[1]
            if a["_target"] != b["_target"] or a["Peptide"] != b["Peptide"]:
                return True
    return False


def _files_for(files, root, prefix, level):
    pre = f"{root}{prefix + '.' if prefix else ''}"
    return {"targets": files.get(f"{pre}targets.{level}"), "decoys": files.get(f"{pre}decoys.{level}")}


def judge_collection(res, inp, files, root, prefix, tab, dedup, rollup, decoys, extra, only_ids=None):
    """Judge all level files of one collection. only_ids: restrict file rows to this collection (shared files)."""
    spec_cols = tab["spectrum_columns"]
    levels = [("psms", spec_cols, dedup)]
    if rollup:
        for lc in tab["levels"]:
            levels.append((lc.lower() + "s", [lc], True))
    retained = None
    extra_cols = tuple(l for l in tab["levels"] if l != "Peptide") if rollup else ()
    for lvl, gcols, dd in levels:
        fl = _files_for(files, root, prefix, lvl)
        if fl["targets"] is None:
            res.violate("missing_result_file", lvl, files=sorted(files)[:12], **extra)
            return
        if decoys and fl["decoys"] is None:
            res.violate("missing_result_file", "decoys." + lvl, files=sorted(files)[:12], **extra)
            return
        if not decoys and fl["decoys"] is not None:
            res.violate("unexpected_decoy_file", lvl, **extra)
        if only_ids is not None:
            fl = {k: (v[v["PSMId"].astype(str).isin(only_ids)].reset_index(drop=True) if v is not None else None) for k, v in fl.items()}
        base = None
        if lvl != "psms":
            if dedup:
                if retained is not None:
                    base = retained
                else:
                    # decoys not written: tie-free tables only -> the retained set is determined
                    key = list(map(tuple, inp[spec_cols].astype(str).itertuples(index=False, name=None)))
                    t = inp.assign(_k=key)
                    base = set(t.loc[t.groupby("_k")["_score"].idxmax(), "SpecId"])
            else:
                base = None
        bad, ret = compete.judge_level_files(inp, fl, lvl, gcols, dd, base_rows=base, extra_cols=extra_cols)
        res.count("level_files_judged")
        for kind, detail in bad[:3]:
            res.violate(kind, f"{lvl}/dedup={dedup}", detail=detail, **extra)
        if bad:
            return
        if lvl == "psms":
            retained = ret


def run_confidence(case):
    rng = core.seed_seq(case["seed"], "C03", "conf", case["index"])
    res = Result(case)
    ties = case["ties"] and case["decoys"]  # with decoys hidden the retained set must be determined by the scores
    with core.scratch("c03") as d:
        tabs, paths, scores = [], [], []
        for ci in range(case["ncoll"]):
            small = case["chunk"] == 1
            tab = psm.psm_table(rng, n_spectra=int(rng.integers(30, 70) if small else rng.integers(60, 400)),
                                mult_max=int(rng.integers(2, 7)),
                                key_cols=tuple(rng.choice([("ExpMass",), ("filename", "ExpMass"), ("ret_time",)][:]).tolist()) if False else
                                [("ExpMass",), ("filename", "ExpMass"), ("ret_time", "ExpMass")][case["index"] % 3],
                                n_files=2, file_index=ci, levels=tuple(case["levels"]), with_rid=False,
                                pep_pool=int(rng.integers(5, 40)), share_scan=float(rng.choice([0.0, 0.0, 0.6])))
            s = tab["df"]["info0"].values + 0.5 * tab["df"]["noise0"].values
            if ties:
                s = np.round(s)
            if case["index"] % 3 == 2:
                # a quarter of the PSMs carry no protein annotation (an empty cell): a retained row must still be the
                # row of one input PSM, empty cell included
                gone = rng.random(len(tab["df"])) < 0.25
                tab["df"]["Proteins"] = tab["df"]["Proteins"].astype(object)
                tab["df"].loc[gone, "Proteins"] = np.nan
            tabs.append(tab)
            scores.append(s.astype(float))
            paths.append(psm.write_parquet(tab, d / f"c{ci}.parquet", row_group_size=int(rng.integers(3, 300)))
                         if case["fmt"] == "parquet" else psm.write_pin(tab, d / f"c{ci}.pin"))
        nmax = max(len(t["df"]) for t in tabs)
        chunk = {"default": None, 1: 1, 7: 7, "n-1": nmax - 1, "n": nmax, "n+1": nmax + 1, "0.6n": int(0.6 * nmax), "0.4n": int(0.4 * nmax)}[case["chunk"]]
        prefixes = [f"coll{ci}" for ci in range(case["ncoll"])] if case["prefixes"] else [None] * case["ncoll"]
        root = ["", "res."][case["index"] % 2]
        ds = pipeline.read_datasets(paths)
        sizes = {"CONFIDENCE_CHUNK_SIZE": chunk} if chunk else {}
        with core.chunk_sizes(**sizes):
            c = pipeline.run_confidence(ds, [s.copy() for s in scores], d / "out", prefixes=prefixes, decoys=case["decoys"],
                                        deduplication=case["dedup"], do_rollup=case["rollup"], file_root=root, rng=5,
                                        peps_algorithm=["qvality", "kde_nnls", "kde_nnls"][case["index"] % 3],
                                        max_workers=int(rng.choice([1, 3])))
        extra = {k: case[k] for k in ("dedup", "rollup", "decoys", "ncoll", "prefixes", "fmt", "chunk", "levels")}
        extra["ties"] = ties
        res.count("assign_confidence_calls")
        if not c.ok:
            if c.explicit:
                res["status"] = "refused"
                res["note"] = c.info["msg"]
                return res
            if c.info.get("file") == "peps.py":
                # the PEP estimators' own failures on small / heavily tied samples are C06's business (known finding
                # there); without result files there is nothing to judge about the competition
                res["status"] = "refused"
                res["note"] = "PEP estimator failed: " + c.sig
                res.count("pep_estimation_failed")
                return res
            res.violate("crash", c.sig, msg=c.info["msg"], **extra)
            return res
        files = pipeline.read_results(d / "out")
        nt = False
        for ci, (tab, s) in enumerate(zip(tabs, scores)):
            inp = _input_frame(tab, s)
            only = set(inp["SpecId"]) if not case["prefixes"] and case["ncoll"] > 1 else None
            judge_collection(res, inp, files, root, prefixes[ci], tab, case["dedup"], case["rollup"], case["decoys"],
                             dict(extra, collection=ci), only_ids=only)
            nt = nt or _nontrivial(inp, tab["spectrum_columns"])
            if res["violations"]:
                break
        # collections must not leak into each other's files
        if case["prefixes"] and case["ncoll"] > 1 and not res["violations"]:
            for ci, tab in enumerate(tabs):
                mine = set(tab["df"]["SpecId"].astype(str))
                for name, df in files.items():
                    if name.startswith(f"{root}coll{ci}.") and not set(df["PSMId"].astype(str)) <= mine:
                        res.violate("collections_mixed", name, **extra)
        res["nontrivial"] = nt
        res["sample"] = dict(extra, files=sorted(files), rows=[len(t["df"]) for t in tabs])
    return res


def run_rollup_tool(case):
    rng = core.seed_seq(case["seed"], "C03", "rollup", case["index"])
    res = Result(case)
    roll = core.mk("mokapot.brew_rollup")
    # names of the input collections relative to the rollup's file root: unrelated, or beginning with the same text
    # (collections run0, run1 rolled up with --file_root run; a collection called rollup_0 with the default root)
    coll, froot = [("set{i}.", None), ("rollup_{i}.", None), ("run{i}.", "run"), ("set{i}.", "se")][case["index"] % 4]
    root_out = (froot or "rollup")
    with core.scratch("c03r") as d:
        src = d / "src"
        src.mkdir()
        inputs = []
        for si in range(case["nsets"]):
            tab = psm.psm_table(rng, n_spectra=int(rng.integers(150, 400)), mult_max=3, key_cols=("ExpMass",),
                                file_index=si, levels=tuple(case["levels"]), with_rid=False, pep_pool=int(rng.integers(5, 30)))
            s = tab["df"]["info0"].values + 0.5 * tab["df"]["noise0"].values
            if case["ties"]:
                s = np.round(s * 2) / 2
            p = psm.write_pin(tab, d / f"s{si}.pin")
            ds = pipeline.read_datasets([p])
            c = pipeline.run_confidence(ds, [s.astype(float)], src, decoys=True, file_root=coll.format(i=si), rng=1)
            if not c.ok:
                res["status"] = "refused" if c.explicit else "inconclusive"
                res["note"] = "producer failed: " + c.sig
                return res
            inputs.append((tab, s.astype(float)))
        before = pipeline.read_results(src)
        dest = d / "dest"
        # base level of the rollup: PSM files, or previously written peptide / precursor files
        base = ["psm", "psm", "peptide", "precursor"][case["index"] % 4]
        if base == "precursor" and "Precursor" not in case["levels"]:
            base = "peptide"
        c = core.Call(roll.main, ["--level", base, "--src_dir", str(src), "--dest_dir", str(dest), "--verbosity", "0"]
                      + (["--file_root", froot] if froot else []))
        res.count("rollup_calls")
        extra = dict(nsets=case["nsets"], levels=case["levels"], ties=case["ties"], base=base, collections=coll, file_root=root_out)
        if not c.ok:
            if c.info.get("file") == "peps.py":
                res["status"] = "refused"
                res["note"] = "PEP estimator failed: " + c.sig
                res.count("pep_estimation_failed")
                return res
            res.violate("crash", c.sig, msg=c.info["msg"], **extra)
            return res
        out = {}
        for p in sorted(dest.iterdir()):
            if p.is_file() and (".targets." in p.name or ".decoys." in p.name):
                out[p.name] = pd.read_csv(p, sep="\t")
        # the rollup's input rows = union of the PSM-level result rows of all sets
        rows = []
        for name, df in before.items():
            if name.endswith(f".{base}s"):
                rows.append(df.assign(_target=(".targets." in name)))
        pool = pd.concat(rows, ignore_index=True)
        pool = pool.rename(columns={"PSMId": "SpecId", "peptide": "Peptide", "proteinIds": "Proteins"})
        pool["SpecId"] = pool["SpecId"].astype(str)
        pool["_score"] = pool["score"].astype(float)
        colmap = {"Peptide": "peptide", "ModifiedPeptide": "modified_peptide", "Precursor": "precursor", "PeptideGroup": "peptide_group"}
        judged = 0
        reach = {"psm": ["Peptide", "ModifiedPeptide", "Precursor", "PeptideGroup"], "peptide": ["Peptide"],
                 "precursor": ["Precursor", "ModifiedPeptide", "PeptideGroup", "Peptide"]}[base]
        for lc in [l for l in ["Peptide"] + list(case["levels"]) if l in reach]:
            lvl = colmap[lc]
            fl = {"targets": out.get(f"{root_out}.targets.{lvl}s"), "decoys": out.get(f"{root_out}.decoys.{lvl}s")}
            if fl["targets"] is None or fl["decoys"] is None:
                res.violate("missing_result_file", lvl, files=sorted(out), **extra)
                return res
            fl = {k: v.rename(columns={"psm_id": "PSMId", lvl: lc if lc != "Peptide" else "peptide", "q_value": "q-value"}) for k, v in fl.items()}
            for v in fl.values():
                if "peptide" not in v.columns and "Peptide" in v.columns:
                    v.rename(columns={"Peptide": "peptide"}, inplace=True)
            bad, _ = compete.judge_level_files(pool, fl, lvl, [lc], True, base_rows=None, extra_cols=())
            judged += 1
            for kind, detail in bad[:3]:
                res.violate(kind, "rollup/" + lvl, detail=detail, **extra)
            if bad:
                return res
        res.count("level_files_judged", judged)
        res["nontrivial"] = True
        res["sample"] = dict(extra, outputs=sorted(out), input_rows=len(pool))
    return res


def _cli(args):
    m = core.mk("mokapot.mokapot")
    return core.Call(m.main, [str(a) for a in args])


def run_cli(case):
    rng = core.seed_seq(case["seed"], "C03", "cli", case["index"])
    res = Result(case)
    with core.scratch("c03c") as d:
        tab = psm.psm_table(rng, n_spectra=int(rng.integers(500, 900)), mult_max=3, key_cols=("ExpMass",), with_rid=False,
                            label_enc=["pm1", "01"][case["index"] % 2], pep_pool=40, sep_strength=3.5, pi1=0.6,
                            levels=(("ModifiedPeptide",) if case["index"] % 3 == 0 else ()))
        p = psm.write_pin(tab, d / "in.pin")
        common = [p, "--seed", 7, "--folds", 2, "--max_iter", 2, "--train_fdr", 0.05, "--test_fdr", 0.05, "-v", 0,
                  "--keep_decoys", "--max_workers", 1]
        a = _cli(common + ["--dest_dir", d / "all", "--skip_deduplication", "--skip_rollup"])
        res.count("cli_runs")
        extra = dict(rows=len(tab["df"]), enc=["pm1", "01"][case["index"] % 2])
        if not a.ok:
            if a.explicit:
                res["status"] = "refused"
                res["note"] = a.info["msg"]
                return res
            res.violate("crash", a.sig + "/skip_dedup", msg=a.info["msg"], **extra)
            return res
        fa = pipeline.read_results(d / "all")
        if "targets.psms" not in fa or "decoys.psms" not in fa:
            res.violate("missing_result_file", "psms", files=sorted(fa), **extra)
            return res
        allp = pd.concat([fa["targets.psms"], fa["decoys.psms"]], ignore_index=True)
        if any(k.endswith(".peptides") for k in fa):
            res.violate("rollup_written_despite_skip_rollup", "", files=sorted(fa), **extra)
        if sorted(allp["PSMId"].astype(str)) != sorted(tab["df"]["SpecId"].astype(str)):
            res.violate("psm_rows_lost_or_duplicated", "cli --skip_deduplication", expected=len(tab["df"]), got=len(allp),
                        duplicates=int(len(allp) - allp["PSMId"].nunique()), **extra)
            return res
        score_of = dict(zip(allp["PSMId"].astype(str), allp["score"].astype(float)))
        inp = _input_frame(tab, [score_of[i] for i in tab["df"]["SpecId"].astype(str)])
        # the all-PSM file itself
        judge_collection(res, inp, fa, "", None, tab, False, False, True, dict(extra, run="skip_dedup+skip_rollup"))
        if res["violations"]:
            return res
        b = _cli(common + ["--dest_dir", d / "std"])
        res.count("cli_runs")
        if not b.ok:
            res.violate("crash", b.sig + "/standard", msg=b.info["msg"], **extra)
            return res
        fb = pipeline.read_results(d / "std")
        judge_collection(res, inp, fb, "", None, tab, True, True, True, dict(extra, run="standard"))
        res["nontrivial"] = _nontrivial(inp, tab["spectrum_columns"])
        res["sample"] = dict(extra, files=sorted(fb))
    return res


def run_cli_multi(case):
    """The command-line tool on several PIN files named in an order that is not the sorted order (and once with a file
    root): every collection gets its own result files, named after its file stem, holding its own PSMs only."""
    rng = core.seed_seq(case["seed"], "C03", "cli_multi", case["index"])
    res = Result(case)
    with core.scratch("c03m") as d:
        stems = [["zeta", "alpha"], ["run_b", "run_a", "run_c"], ["m2", "m10", "m1"], ["b.x", "a.y"]][case["index"] % 4]
        tabs, paths = [], []
        for fi, stem in enumerate(stems):
            tab = psm.psm_table(rng, n_spectra=int(rng.integers(350, 600)), mult_max=3, key_cols=("ExpMass",), with_rid=False,
                                file_index=fi, pep_pool=40, sep_strength=3.5, pi1=0.6)
            tabs.append(tab)
            paths.append(psm.write_pin(tab, d / f"{stem}.pin"))
        root = "exp" if case["index"] % 3 == 1 else None
        common = [*paths, "--seed", 11, "--folds", 2, "--max_iter", 2, "--train_fdr", 0.05, "--test_fdr", 0.05, "-v", 0,
                  "--keep_decoys", "--max_workers", [1, 2][case["index"] % 2]] + (["--file_root", root] if root else [])
        extra = dict(stems=stems, file_root=root)
        a = _cli(common + ["--dest_dir", d / "all", "--skip_deduplication", "--skip_rollup"])
        res.count("cli_runs")
        if not a.ok:
            if a.explicit:
                res["status"] = "refused"
                res["note"] = a.info["msg"]
                return res
            res.violate("crash", a.sig + "/multi", msg=a.info["msg"], **extra)
            return res
        fa = pipeline.read_results(d / "all")
        rootp = f"{root}." if root else ""
        inps = []
        for stem, tab in zip(stems, tabs):
            fl = _files_for(fa, rootp, stem, "psms")
            if fl["targets"] is None or fl["decoys"] is None:
                res.violate("missing_result_file", f"{stem}.psms", files=sorted(fa)[:12], **extra)
                return res
            allp = pd.concat([fl["targets"], fl["decoys"]], ignore_index=True)
            mine = set(tab["df"]["SpecId"].astype(str))
            got = allp["PSMId"].astype(str)
            if not set(got) <= mine:
                res.violate("collections_mixed", f"cli/{stem}", foreign_rows=int((~got.isin(mine)).sum()), **extra)
                return res
            if sorted(got) != sorted(mine):
                res.violate("psm_rows_lost_or_duplicated", "cli multi --skip_deduplication", expected=len(mine), got=len(allp), **extra)
                return res
            score_of = dict(zip(got, allp["score"].astype(float)))
            inps.append(_input_frame(tab, [score_of[i] for i in tab["df"]["SpecId"].astype(str)]))
        b = _cli(common + ["--dest_dir", d / "std"])
        res.count("cli_runs")
        if not b.ok:
            res.violate("crash", b.sig + "/multi_standard", msg=b.info["msg"], **extra)
            return res
        fb = pipeline.read_results(d / "std")
        for stem, tab, inp in zip(stems, tabs, inps):
            judge_collection(res, inp, fb, rootp, stem, tab, True, True, True, dict(extra, run="standard", stem=stem))
            if res["violations"]:
                return res
        res["nontrivial"] = True
        res["sample"] = dict(extra, files=sorted(fb))
    return res


def run_case(case):
    return {"confidence": run_confidence, "rollup_tool": run_rollup_tool, "cli": run_cli, "cli_multi": run_cli_multi}[case["class"]](case)
