"""C16 - protein grouping is a maximal-subset grouping with a consistent peptide map.

Invariant monitor on the maps returned by read_fasta: the statement's conditions
are checked directly (vf.oracles.grouping) on exhaustive small incidence matrices
(token peptides => controlled incidence), random larger structures with planted
chains/diamonds/equal sets/decoy mirrors, random residue-level sequences with
random digest parameters, all entry orders for <=5 proteins, and PYTHONHASHSEED
sweeps in fresh interpreters (canonical dumps must agree).
"""
from __future__ import annotations

import hashlib
import itertools
import json

import numpy as np

from vf import core
from vf.core import Result
from vf.gens.psm import pep_name
from vf.oracles import grouping

LEVEL = "exploration"
RULE = (
    "exh: every protein x token-peptide incidence matrix with <=P proteins and <=Q peptides (no empty protein), "
    "each read in 2 entry orders; perms: all entry orders of random <=5-protein structures; random: up to 60 "
    "proteins x 80 peptides with planted subset chains, diamonds, equal sets and decoy mirrors; seqs: random "
    "residue sequences with random digest parameters (peptide sets taken from mokapot.digest), each database then "
    "read again in the same process with exactly one digestion setting changed and once more with the first settings "
    "(history_reads: nothing remembered from an earlier call may leak into a later one); hashseed: the "
    "same structures under PYTHONHASHSEED 0..3. Non-trivial = some protein's peptide set is contained in "
    "another's or some peptide occurs in >=2 proteins; distinct = distinct incidence structure."
    " The protein map may list no decoy entry as a target."
)
ASSUMPTIONS = [
    "protein names contain no ', ' / '; ' (group membership is parsed from group names)",
    "peptide sets of the residue-level class come from mokapot.digest (its correctness is C17's business)",
]
CASE_TIMEOUT = 900


def EXHAUSTIVE(tier):
    return True


def tok(i):
    return pep_name(i + 17, 6) + "K"  # 7 residues, no internal K/R, ends with the cleavage residue


def write_fasta(path, entries, width=60):
    with open(path, "w") as fh:
        for name, seq in entries:
            fh.write(">" + name + " some description\n")
            for i in range(0, len(seq), width):
                fh.write(seq[i:i + width] + "\n")
    return path


def _read(path, **kw):
    return core.import_mokapot().read_fasta(path, **kw)


def _check_structure(res, d, prot_peps, entries, prefix="decoy_", kw=None, where="", orders=None, rng=None):
    """entries: list[(name, seq)]. Reads in the given orders (default: as is + reversed)
    and checks conditions + order invariance. Returns canonical form or None."""
    kw = kw or dict(missed_cleavages=0, min_length=6, max_length=50)
    canon = None
    orders = orders if orders is not None else [list(range(len(entries))), list(range(len(entries)))[::-1]]
    for oi, order in enumerate(orders):
        ordered = [entries[i] for i in order]
        if oi % 2 == 1 and len(ordered) >= 2:
            # the same database split over two files, handed over as a tuple / list of str or Path
            cut = len(ordered) // 2
            pa = write_fasta(d / "x1.fasta", ordered[:cut])
            pb = write_fasta(d / "x2.fasta", ordered[cut:])
            path = (str(pa), pb) if oi % 4 == 1 else [pa, str(pb)]
            c = core.Call(core.import_mokapot().read_fasta, path, decoy_prefix=prefix, **kw)
        else:
            path = write_fasta(d / "x.fasta", ordered)
            c = core.Call(_read, path if oi % 4 else str(path), decoy_prefix=prefix, **kw)
        res.count("read_fasta_calls")
        wit = {"proteins": {k: sorted(v) for k, v in list(prot_peps.items())[:12]}, "order": order[:12], "where": where}
        if not c.ok:
            if c.explicit and "Only decoy proteins" in c.info["msg"]:
                return None
            res.violate("crash", c.sig, msg=c.info["msg"], **wit)
            return None
        pr = c.value
        bad = grouping.check(prot_peps, pr.peptide_map, pr.shared_peptides, pr.protein_map, prefix)
        for kind, detail in bad[:3]:
            res.violate(kind, where, detail=detail, peptide_map=dict(list(pr.peptide_map.items())[:12]),
                        shared=dict(list(pr.shared_peptides.items())[:12]), **wit)
        if bad:
            return None
        cn = grouping.canonical(prot_peps, pr.peptide_map, pr.shared_peptides)
        if canon is None:
            canon = cn
        elif cn != canon:
            res.violate("order_dependent", where, first=str(canon)[:600], other=str(cn)[:600], **wit)
            return None
    return canon


def _nontrivial(prot_peps):
    names = list(prot_peps)
    for a in names:
        for b in names:
            if a != b and prot_peps[a] & prot_peps[b]:
                return True
    return False


def plan(seed, tier):
    cases = []
    dims = [(p, q) for p in range(1, 5) for q in range(1, 5)] if tier == "quick" else \
        [(p, q) for p in range(1, 6) for q in range(1, 5) if p * q <= 20]
    for p, q in dims:
        total = 2 ** (p * q)
        parts = max(1, total // 1024)
        for part in range(parts):
            cases.append({"class": "exh", "P": p, "Q": q, "part": part, "parts": parts, "cost": total / parts / 200})
    n = 16 if tier == "quick" else 1000
    cases += [{"class": "perms", "index": i, "reps": 6, "cost": 3} for i in range(n)]
    cases += [{"class": "random", "index": i, "reps": 10, "cost": 3} for i in range(n)]
    cases += [{"class": "seqs", "index": i, "reps": 10, "cost": 3} for i in range(n)]
    for hs in (0, 1, 2, 3):
        for i in range(2 if tier == "quick" else 12):
            cases.append({"class": "hashseed", "index": i, "reps": 20, "env": {"PYTHONHASHSEED": str(hs)}, "hs": hs,
                          "cost": 3})
    return cases


MANDATORY_CLASSES = ["exh", "perms", "random", "seqs", "hashseed"]


def run_exh(case):
    P, Q = case["P"], case["Q"]
    res = Result(case, key=f"exh/{P}x{Q}/{case['part']}")
    nt = evals = 0
    names = [f"prot{chr(65 + i)}" for i in range(P)]
    with core.scratch("c16") as d:
        for idx, bits in enumerate(itertools.product((0, 1), repeat=P * Q)):
            if idx % case["parts"] != case["part"]:
                continue
            rows = [bits[i * Q:(i + 1) * Q] for i in range(P)]
            if any(sum(r) == 0 for r in rows):
                continue
            prot_peps = {names[i]: {tok(j) for j in range(Q) if rows[i][j]} for i in range(P)}
            entries = [(names[i], "".join(tok(j) for j in range(Q) if rows[i][j])) for i in range(P)]
            # one of the proteins becomes a decoy in a third of the structures
            prefix = "decoy_"
            if idx % 3 == 0 and P >= 2:
                old = names[P - 1]
                new = prefix + names[0]
                prot_peps = {(new if k == old else k): v for k, v in prot_peps.items()}
                entries = [((new if k == old else k), s) for k, s in entries]
            _check_structure(res, d, prot_peps, entries, prefix, where=f"exh{P}x{Q}")
            evals += 2
            if _nontrivial(prot_peps):
                nt += 1
            if len(res["violations"]) > 6:
                break
    res["evals"] = evals
    res["distinct_n"] = nt
    res["nontrivial"] = nt > 0
    return res


def gen_structure(rng, nprot, npep, with_decoys=True):
    """Random incidence with planted chains / diamonds / equal sets."""
    prot_peps = {}
    base = int(rng.integers(0, 1000)) * 100
    def T(j):
        return tok(base + j)
    names = [f"sp|P{i:03d}|X" for i in range(nprot)]
    for i, nm in enumerate(names):
        k = int(rng.integers(1, max(2, min(npep, 8)) + 1))
        prot_peps[nm] = {T(int(j)) for j in rng.choice(npep, size=k, replace=False)}
    # plant structures
    for _ in range(max(1, nprot // 3)):
        a, b = rng.choice(nprot, size=2, replace=False)
        kind = rng.choice(["subset", "equal", "diamond", "chain"])
        A = prot_peps[names[a]]
        if kind == "subset" and len(A) > 1:
            prot_peps[names[b]] = set(rng.choice(sorted(A), size=int(rng.integers(1, len(A))), replace=False).tolist())
        elif kind == "equal":
            prot_peps[names[b]] = set(A)
        elif kind == "diamond" and nprot >= 3:
            c = int(rng.choice([x for x in range(nprot) if x not in (a, b)]))
            common = {T(int(j)) for j in rng.choice(npep, size=min(2, npep), replace=False)}
            prot_peps[names[a]] = A | common
            prot_peps[names[b]] = prot_peps[names[b]] | common
            prot_peps[names[c]] = set(common)
        elif kind == "chain" and nprot >= 3 and len(A) > 2:
            c = int(rng.choice([x for x in range(nprot) if x not in (a, b)]))
            s1 = sorted(A)[: len(A) - 1]
            prot_peps[names[b]] = set(s1)
            prot_peps[names[c]] = set(s1[: max(1, len(s1) - 1)])
    entries = [(nm, "".join(sorted(prot_peps[nm], key=lambda x: rng.random()))) for nm in names]
    if with_decoys:
        # mirrored decoys: reversed interiors of every token (distinct tokens, same structure)
        def mirror(t):
            return t[:-1][::-1] + "K" if t[:-1][::-1] != t[:-1] else "W" + t[1:]
        for nm in names:
            dn = "decoy_" + nm
            prot_peps[dn] = {mirror(t) for t in prot_peps[nm]}
            entries.append((dn, "".join(mirror(t) for t in sorted(prot_peps[nm]))))
    return prot_peps, entries


def run_perms(case):
    rng = core.seed_seq(case["seed"], "C16", "perms", case["index"])
    res = Result(case)
    nt = evals = 0
    with core.scratch("c16") as d:
        for rep in range(case["reps"]):
            nprot = int(rng.integers(2, 6))
            prot_peps, entries = gen_structure(rng, nprot, int(rng.integers(2, 7)), with_decoys=False)
            orders = [list(p) for p in itertools.permutations(range(len(entries)))]
            _check_structure(res, d, prot_peps, entries, where="perms", orders=orders)
            evals += len(orders)
            if _nontrivial(prot_peps):
                nt += 1
    res["evals"] = evals
    res["distinct_n"] = nt
    res["nontrivial"] = nt > 0
    return res


def run_random(case):
    rng = core.seed_seq(case["seed"], "C16", "random", case["index"])
    res = Result(case)
    nt = evals = 0
    with core.scratch("c16") as d:
        for rep in range(case["reps"]):
            nprot = int(rng.integers(2, 61))
            npep = int(rng.integers(2, 81))
            prot_peps, entries = gen_structure(rng, nprot, npep, with_decoys=bool(rep % 2))
            n = len(entries)
            orders = [list(range(n)), list(rng.permutation(n)), list(rng.permutation(n))]
            _check_structure(res, d, prot_peps, entries, where="random", orders=orders)
            evals += 3
            if _nontrivial(prot_peps):
                nt += 1
            if rep == 0:
                res["sample"] = {"n_proteins": n, "first": {k: sorted(v) for k, v in list(prot_peps.items())[:4]}}
    res["evals"] = evals
    res["distinct_n"] = nt
    res["nontrivial"] = nt > 0
    return res


def run_seqs(case):
    mokapot = core.import_mokapot()
    rng = core.seed_seq(case["seed"], "C16", "seqs", case["index"])
    res = Result(case)
    nt = evals = 0
    with core.scratch("c16") as d:
        for rep in range(case["reps"]):
            nprot = int(rng.integers(2, 25))
            alpha = list("AKGLPM")
            frags = ["".join(rng.choice(alpha, size=int(rng.integers(3, 9)))) + "K" for _ in range(int(rng.integers(3, 12)))]
            entries = []
            for i in range(nprot):
                k = int(rng.integers(1, 6))
                seq = "".join(rng.choice(frags, size=k))
                if rng.random() < 0.3:
                    seq = "M" + seq
                entries.append((f"P{i}", seq))
            if rep % 2:
                entries += [("rev_" + n, s[::-1]) for n, s in entries]
            kw = dict(enzyme=str(rng.choice(["[KR]", "[KR](?!P)", "K(?!P)"])), missed_cleavages=int(rng.integers(0, 3)),
                      min_length=int(rng.integers(2, 7)), max_length=int(rng.integers(8, 30)),
                      clip_nterm_methionine=bool(rng.integers(0, 2)), semi=bool(rng.random() < 0.2))
            prot_peps = {}
            for n, s in entries:
                peps = mokapot.digest(s, enzyme_regex=kw["enzyme"], missed_cleavages=kw["missed_cleavages"],
                                      clip_nterm_methionine=kw["clip_nterm_methionine"], min_length=kw["min_length"],
                                      max_length=kw["max_length"], semi=kw["semi"])
                if peps:
                    prot_peps[n] = set(peps)
            if not any(not n.startswith("rev_") for n in prot_peps):
                continue
            n = len(entries)
            _check_structure(res, d, prot_peps, entries, prefix="rev_", kw=kw, where="seqs",
                             orders=[list(range(n)), list(rng.permutation(n))])
            evals += 2
            if _nontrivial(prot_peps):
                nt += 1
            # history: the same database read again in this process with exactly one digestion setting changed
            # (nothing remembered from the earlier call may leak into the later one), then with the first settings again
            which = str(rng.choice(["semi", "missed_cleavages", "min_length", "max_length", "clip_nterm_methionine", "enzyme"]))
            kw2 = dict(kw)
            if which in ("semi", "clip_nterm_methionine"):
                kw2[which] = not kw[which]
            elif which == "missed_cleavages":
                kw2[which] = (kw[which] + 1) % 3
            elif which == "min_length":
                kw2[which] = kw[which] + 1 if kw[which] < 6 else 2
            elif which == "max_length":
                kw2[which] = kw[which] + 5 if kw[which] < 20 else 8
            else:
                kw2[which] = "[KR]" if kw[which] != "[KR]" else "K(?!P)"
            for kwx, tag in ((kw2, "changed:" + which), (kw, "back:" + which)):
                pp = {}
                for nm, s in entries:
                    peps = mokapot.digest(s, enzyme_regex=kwx["enzyme"], missed_cleavages=kwx["missed_cleavages"],
                                          clip_nterm_methionine=kwx["clip_nterm_methionine"], min_length=kwx["min_length"],
                                          max_length=kwx["max_length"], semi=kwx["semi"])
                    if peps:
                        pp[nm] = set(peps)
                if not any(not nm.startswith("rev_") for nm in pp):
                    break
                _check_structure(res, d, pp, entries, prefix="rev_", kw=kwx, where="seqs_history/" + tag,
                                 orders=[list(range(n))])
                res.count("history_reads")
                res.count("history_" + which)
                evals += 1
    res["evals"] = evals
    res["distinct_n"] = nt
    res["nontrivial"] = nt > 0
    return res


def run_hashseed(case):
    # identical structures for every hash seed: the generator seed does not include the hash seed
    rng = core.seed_seq(case["seed"], "C16", "hashseed", case["index"])
    res = Result(case, key=f"hashseed/{case['index']}/{case['hs']}")
    h = hashlib.sha256()
    nt = evals = 0
    with core.scratch("c16") as d:
        for rep in range(case["reps"]):
            prot_peps, entries = gen_structure(rng, int(rng.integers(3, 30)), int(rng.integers(3, 30)), with_decoys=bool(rep % 2))
            cn = _check_structure(res, d, prot_peps, entries, where="hashseed", orders=[list(range(len(entries)))])
            evals += 1
            h.update(json.dumps(cn, sort_keys=True, default=str).encode())
            if _nontrivial(prot_peps):
                nt += 1
    res["digest"] = h.hexdigest()
    res["evals"] = evals
    res["distinct_n"] = nt
    res["nontrivial"] = nt > 0
    return res


def run_case(case):
    return {"exh": run_exh, "perms": run_perms, "random": run_random, "seqs": run_seqs,
            "hashseed": run_hashseed}[case["class"]](case)


def finalize(cases, results, tier):
    by = {}
    for r in results:
        if r.get("class") == "hashseed" and "digest" in r:
            idx = r["key"].split("/")[1]
            by.setdefault(idx, {})[r["key"].split("/")[2]] = r["digest"]
    out = []
    groups = 0
    for idx, d in by.items():
        if len(d) >= 2:
            groups += 1
            if len(set(d.values())) > 1:
                rr = Result({"id": None, "class": "hashseed"}, key=f"hashseed/{idx}")
                rr["evals"] = 0
                rr.violate("hash_seed_dependent", "grouping", digests=d)
                out.append(rr)
    return {"results": out, "coverage": {"hash_seed_groups_compared": groups, "hash_seeds": sorted({k for d in by.values() for k in d})}}
