"""C09 - a run's results depend only on its inputs, not on leftovers of earlier runs.

Fault enumeration: an earlier run (other table, more chunks, same/different prefix
and file root) is aborted at *every* mutating file event k = 1..K (K measured by a
dry run) - by an exception raised inside the file operation (Python unwinds), by
os._exit in a forked child (nothing runs), or killed with the last written file torn
- or left to complete; then the observed run is executed on the debris and its
result files are compared byte for byte with the same run in an empty directory.
The directory listing after the run is checked for intermediate files of this run.
CLI: a pre-existing <pin>.tsv beside a ragged PIN input.
"""
from __future__ import annotations

import hashlib
import os
import shutil
from pathlib import Path

import numpy as np

from vf import core
from vf.core import Result
from vf.gens import psm
from vf.instruments import fsaudit, pipeline

LEVEL = "fault_enumeration"
RULE = (
    "producers: assign_confidence with another table, 3..6 chunks, text/Parquet, same or different prefix/file "
    "root as the observed run, workers 1/2; every mutating file event k=1..K of the producer is a crash point in "
    "modes exception / kill (forked child, os._exit) / torn (kill + truncate the file written last); plus "
    "completed producers and histories of 2..3 producers; observed: assign_confidence with its own table (fewer "
    "chunks). cli: mokapot.mokapot.main on a ragged PIN with a complete / torn / foreign <pin>.tsv left beside "
    "it. rollup_history: mokapot.brew_rollup on result sets of 1..3 of 4 analyses after 1..3 earlier rollups (other sets, base level "
    "psm/peptide, destination = the input directory / another directory / the input directory spelt x/../src, completed or "
    "aborted at a file event), compared byte for byte with the same rollup on a pristine input directory. Non-trivial = the debris directory differed from empty when the observed run started; distinct = "
    "(producer config, mode, k) / history."
    " A third of the histories use prefixes / file roots containing [ ] * ? for the observed run; a file the run created or rewrote counts as its intermediate."
    " cli_tsv also runs the command line with the k-th write of its PIN conversion failing: the input must stay the original or the complete conversion and a rerun must reproduce the clean results."
    " cli_tsv leftovers include a conversion longer than the new one."
)
ASSUMPTIONS = [
    "files that existed before the observed run and are not touched by it are never counted against it",
    "an observed run that fails loudly on debris is 'not a successful run': counted, not a violation",
    "documented result names: <file_root>[<prefix>.]targets.<level> / decoys.<level>",
    "kill mode uses os.fork in the monitor process (text inputs; Parquet producers use exception mode only because pyarrow's threads do not survive a fork)",
]
CASE_TIMEOUT = 1500


def EXHAUSTIVE(tier):
    return True


def plan(seed, tier):
    cases = []
    nprod = 3 if tier == "quick" else 18
    for p in range(nprod):
        modes = ["exception"] + (["kill"] if p % 3 == 0 or tier == "thorough" else []) + (["torn"] if p % 3 == 1 or tier == "thorough" else [])
        for mode in modes:
            parts = 4
            for part in range(parts):
                cases.append({"class": "crashpoints", "producer": p, "mode": mode, "part": part, "parts": parts, "cost": 20})
    nh = 8 if tier == "quick" else 400
    for i in range(nh):
        cases.append({"class": "histories", "index": i, "cost": 8})
    for i in range(4 if tier == "quick" else 36):
        cases.append({"class": "cli_tsv", "index": i, "cost": 25})
    for i in range(6 if tier == "quick" else 120):
        cases.append({"class": "rollup_history", "index": i, "cost": 10})
    return cases


MANDATORY_CLASSES = ["crashpoints", "histories", "cli_tsv", "rollup_history"]


# ---------------------------------------------------------------- building blocks
def make_input(rng, d, name, fmt, n_spectra, even=False):
    tab = psm.psm_table(rng, n_spectra=n_spectra, mult_max=3, key_cols=("ExpMass",), with_rid=False,
                        file_index=int(rng.integers(0, 50)))
    if even and len(tab["df"]) % 2:
        # row count = exactly two chunks of the observed run (a boundary where an off-by-one chunk index shows)
        tab["df"] = tab["df"].iloc[:-1].reset_index(drop=True)
        tab["truth"] = tab["truth"].iloc[:-1].reset_index(drop=True)
    p = psm.write_parquet(tab, d / f"{name}.parquet", row_group_size=50) if fmt == "parquet" else psm.write_pin(tab, d / f"{name}.pin")
    scores = (tab["df"]["info0"].values + 0.3 * tab["df"]["noise0"].values).astype(float)
    return tab, p, scores


def run_conf(path, scores, dest, chunk, prefix, root, workers=1):
    ds = pipeline.read_datasets([path])
    with core.chunk_sizes(CONFIDENCE_CHUNK_SIZE=chunk):
        return pipeline.run_confidence(ds, [scores.copy()], dest, prefixes=[prefix], file_root=root, decoys=True,
                                       peps_algorithm="kde_nnls", rng=2, max_workers=workers)


def snapshot(d):
    out = {}
    for p in sorted(Path(d).iterdir()):
        if p.is_file():
            out[p.name] = hashlib.sha256(p.read_bytes()).hexdigest()
    return out


def result_names(root, prefix, levels=("psms", "peptides")):
    pre = f"{root}{prefix + '.' if prefix else ''}"
    return {f"{pre}{td}.{lvl}" for td in ("targets", "decoys") for lvl in levels}


def producer_config(p):
    return {
        "fmt": ["pin", "pin", "parquet"][p % 3],
        "nchunks": [5, 3, 4, 6][p % 4],
        "same_names": bool(p % 2 == 0),      # same prefix / file root as the observed run
        "workers": [1, 1, 2][p % 3],
        "n_spectra": [120, 90, 150][p % 3],
    }


OBS = {"prefix": None, "root": "run.", "chunk_frac": 2}


def observe(res, obs_path, obs_scores, dest, clean, extra, OBS=OBS):
    """Run the observed analysis in `dest` (possibly dirty) and judge it."""
    before = snapshot(dest) if dest.exists() else {}
    n = len(obs_scores)
    c = run_conf(obs_path, obs_scores, dest, chunk=-(-n // OBS["chunk_frac"]), prefix=OBS["prefix"], root=OBS["root"])
    res.count("observed_runs")
    if not c.ok:
        res.count("observed_run_failed_loudly")
        res.setdefault("loud_failures", []).append(c.sig)
        if not c.explicit and c.info["in_mokapot"] is False:
            pass
        return False
    after = snapshot(dest)
    names = result_names(OBS["root"], OBS["prefix"])
    got = {k: v for k, v in after.items() if k in names}
    if got != clean:
        diff = sorted(k for k in set(got) | set(clean) if got.get(k) != clean.get(k))
        res.violate("results_depend_on_leftovers", ",".join(d.split(".")[-1] for d in diff)[:60], files=diff,
                    debris=sorted(before)[:12], **extra)
    # files this run created or rewrote (leftovers it did not touch are not counted against it)
    new = {k for k in after if before.get(k) != after[k]}
    stray = sorted(new - names)
    if stray:
        res.violate("intermediate_file_left_behind", stray[0].split(".")[0][:30], files=stray[:6], **extra)
    return True


def _abort_producer(mode, k, fn, root_dir):
    """Run fn() aborted at mutating event k. Returns (aborted?, last written path)."""
    if mode == "exception":
        w = fsaudit.watch([root_dir], crash_at=k, mode="exception")
        try:
            with w:
                fn()
        except fsaudit.InjectedCrash:
            return True, w.last_written
        except BaseException:  # noqa: BLE001 - the producer may wrap the crash
            return True, w.last_written
        return False, None
    # kill / torn: forked child dies with os._exit at event k
    rd, wr = os.pipe()
    pid = os.fork()
    if pid == 0:
        try:
            os.close(rd)
            with fsaudit.watch([root_dir], crash_at=k, mode="kill"):
                try:
                    fn()
                finally:
                    lw = fsaudit.CTL.last_written or ""
                    os.write(wr, lw.encode())
        finally:
            os._exit(0)
    os.close(wr)
    _, status = os.waitpid(pid, 0)
    data = os.read(rd, 4096).decode()
    os.close(rd)
    code = os.waitstatus_to_exitcode(status)
    return code == 137, (data or None)


def run_crashpoints(case):
    res = Result(case, key=f"crash/{case['producer']}/{case['mode']}/{case['part']}")
    cfg = producer_config(case["producer"])
    mode = case["mode"]
    if cfg["fmt"] == "parquet" and mode != "exception":
        mode = "exception"
    rng = core.seed_seq(case["seed"], "C09", "producer", case["producer"])
    evals = nt = 0
    with core.scratch("c09") as d:
        inputs = d / "inputs"
        inputs.mkdir()
        tabA, pA, sA = make_input(rng, inputs, "A", cfg["fmt"], cfg["n_spectra"])
        tabB, pB, sB = make_input(rng, inputs, "B", "pin", 80, even=bool(case["producer"] % 2 == 0))
        nA = len(sA)
        prefA, rootA = (OBS["prefix"], OBS["root"]) if cfg["same_names"] else ("other", "old.")
        # clean reference
        clean_dir = d / "clean"
        c = run_conf(pB, sB, clean_dir, chunk=-(-len(sB) // OBS["chunk_frac"]), prefix=OBS["prefix"], root=OBS["root"])
        if not c.ok:
            res["status"] = "inconclusive"
            res["note"] = "clean reference run failed: " + c.sig
            return res
        clean = {k: v for k, v in snapshot(clean_dir).items() if k in result_names(OBS["root"], OBS["prefix"])}
        stray = sorted(set(snapshot(clean_dir)) - set(clean))
        if stray:
            res.violate("intermediate_file_left_behind", "clean_dir", files=stray[:6])

        # exception mode keeps the aborted producer in this process: worker threads that joblib does not join
        # would keep writing while the observed run executes (a crashed process has no surviving threads),
        # so multi-worker producers are only used where the producer dies as a process (kill / torn)
        pworkers = cfg["workers"] if mode != "exception" else 1

        def producer(dest):
            return run_conf(pA, sA, dest, chunk=-(-nA // cfg["nchunks"]), prefix=prefA, root=rootA, workers=pworkers)

        # dry run: K
        dry = d / "dry"
        dry.mkdir()
        with fsaudit.watch([dry]) as w:
            c0 = producer(dry)
        K = len(w.events)
        res["K"] = K
        res["event_kinds"] = sorted({e[1] for e in w.events})
        if not c0.ok or K < 5:
            res["status"] = "inconclusive"
            res["note"] = f"producer dry run: ok={c0.ok} K={K} {c0.sig}"
            return res
        inputs_before = snapshot(inputs)
        for k in range(1, K + 1):
            if k % case["parts"] != case["part"]:
                continue
            dest = d / f"k{k}"
            dest.mkdir()
            aborted, last = _abort_producer(mode, k, lambda: producer(dest), dest)
            if case["mode"] == "torn" and last and os.path.exists(last) and os.path.getsize(last) > 0:
                with open(last, "r+b") as fh:
                    fh.truncate(max(1, int(os.path.getsize(last) * float(rng.uniform(0.2, 0.9)))))
                res.count("files_torn")
            evals += 1
            res.count("crash_points_enumerated")
            debris = snapshot(dest)
            if debris:
                nt += 1
                res.count("crash_points_with_debris")
            observe(res, pB, sB, dest, clean, dict(producer=case["producer"], mode=case["mode"], k=k, K=K,
                                                   event=str(w.events[k - 1][1:3]), same_names=cfg["same_names"], fmt=cfg["fmt"]))
            shutil.rmtree(dest, ignore_errors=True)
            if len(res["violations"]) >= 3:
                break
        if snapshot(inputs) != inputs_before:
            res.violate("input_file_changed", "api")
    res["evals"] = max(1, evals)
    res["distinct_n"] = nt
    res["nontrivial"] = nt > 0
    res["sample"] = {"producer": cfg, "K": res.get("K"), "mode": case["mode"], "event_kinds": res.get("event_kinds")}
    return res


def run_histories(case):
    rng = core.seed_seq(case["seed"], "C09", "hist", case["index"])
    res = Result(case)
    # names of the observed run: the usual ones, or a prefix / file root containing characters that are special in
    # glob patterns (legal in file names; the CLI derives prefixes from input file stems such as "plate[2].pin")
    obs = dict(OBS)
    if case["index"] % 3 == 1:
        obs["prefix"], obs["root"] = [("plate[2]", ""), ("s1", "exp[1]."), ("a*b", "r?."), ("[ab]", "run.")][(case["index"] // 3) % 4]
    with core.scratch("c09h") as d:
        inputs = d / "inputs"
        inputs.mkdir()
        tabB, pB, sB = make_input(rng, inputs, "B", ["pin", "parquet"][case["index"] % 2], 80, even=bool(case["index"] % 3 == 0))
        clean_dir = d / "clean"
        c = run_conf(pB, sB, clean_dir, chunk=-(-len(sB) // obs["chunk_frac"]), prefix=obs["prefix"], root=obs["root"])
        if not c.ok:
            res["status"] = "inconclusive"
            return res
        clean = {k: v for k, v in snapshot(clean_dir).items() if k in result_names(obs["root"], obs["prefix"])}
        stray = sorted(set(snapshot(clean_dir)) - set(clean))
        if stray:
            res.violate("intermediate_file_left_behind", "clean_dir", files=stray[:6], names=[obs["prefix"], obs["root"]])
        dest = d / "dest"
        dest.mkdir()
        hist = []
        for j in range(int(rng.integers(1, 4))):
            cfg = producer_config(int(rng.integers(0, 12)))
            tabA, pA, sA = make_input(rng, inputs, f"A{j}", cfg["fmt"], cfg["n_spectra"])
            prefA, rootA = (obs["prefix"], obs["root"]) if rng.random() < 0.6 else (str(rng.choice(["x", "y"])), "old.")
            nA = len(sA)
            fate = str(rng.choice(["complete", "exception", "exception", "kill"]))
            if cfg["fmt"] == "parquet" and fate == "kill":
                fate = "exception"

            pw = cfg["workers"] if fate == "kill" else 1

            def producer():
                return run_conf(pA, sA, dest, chunk=-(-nA // cfg["nchunks"]), prefix=prefA, root=rootA, workers=pw)
            if fate == "complete":
                producer()
                hist.append({"fate": fate, "cfg": cfg})
            else:
                k = int(rng.integers(1, 25))
                _abort_producer(fate, k, producer, dest)
                hist.append({"fate": fate, "k": k, "cfg": cfg})
        debris = snapshot(dest)
        observe(res, pB, sB, dest, clean, dict(history=hist, names=[obs["prefix"], obs["root"]]), OBS=obs)
        res["nontrivial"] = bool(debris)
        res["sample"] = {"history": hist, "debris": sorted(debris)[:10]}
    return res


def run_cli_tsv(case):
    from vf.props.c19 import gen_pin  # noqa: F401  (structure reference only)

    rng = core.seed_seq(case["seed"], "C09", "cli", case["index"])
    res = Result(case)
    main = core.mk("mokapot.mokapot").main
    with core.scratch("c09c") as d:
        tab = psm.psm_table(rng, n_spectra=400, mult_max=2, key_cols=("ExpMass",), with_rid=False, sep_strength=3.5, pi1=0.6)
        df = tab["df"].copy()
        # ragged PIN: proteins as a tab separated list of variable length at the end
        cols = [c for c in df.columns if c != "Proteins"] + ["Proteins"]
        lines = ["\t".join(cols)]
        exp_lines = ["\t".join(cols)]
        for _, r in df[cols].iterrows():
            k = int(rng.integers(1, 4))
            prots = [f"{r['Proteins']}_{j}" for j in range(k)]
            base = [str(r[c]) for c in cols[:-1]]
            lines.append("\t".join(base + prots))
            exp_lines.append("\t".join(base + [":".join(prots)]))
        text = "\n".join(lines) + "\n"
        expected = "\n".join(exp_lines) + "\n"
        args = ["--seed", 3, "--folds", 2, "--max_iter", 1, "--train_fdr", 0.1, "--test_fdr", 0.1, "-v", 0, "--keep_decoys"]

        def run(dirname, leftover):
            dd = d / dirname
            dd.mkdir()
            pin = dd / "in.pin"
            pin.write_text(text)
            if leftover is not None:
                (dd / "in.pin.tsv").write_text(leftover)
            c = core.Call(main, [str(pin), "--dest_dir", str(dd / "out")] + [str(a) for a in args])
            return dd, pin, c
        cdir, cpin, cc = run("clean", None)
        res.count("cli_runs")
        if not cc.ok:
            res["status"] = "refused" if cc.explicit else "inconclusive"
            res["note"] = cc.sig + " " + cc.info["msg"]
            return res
        if cpin.read_text() != expected:
            res.violate("input_not_pure_conversion", "clean_dir", head=cpin.read_text()[:300])
            return res
        clean = snapshot(cdir / "out")
        kind = ["complete_foreign", "torn_own", "complete_own", "longer_foreign"][case["index"] % 4]
        if kind == "longer_foreign":
            # left by an earlier run on a bigger file of the same name: longer than the new conversion will be
            leftover = expected + "\n".join(exp_lines[1:200]).replace("f0_psm", "STALE_psm") + "\n"
        elif kind == "complete_foreign":
            leftover = "\t".join(cols) + "\n" + "\n".join(exp_lines[1:40]).replace("f0_psm", "STALE_psm") + "\n"
        elif kind == "torn_own":
            leftover = expected[: int(len(expected) * 0.37)]
        else:
            leftover = expected
        ddir, dpin, dc = run("dirty", leftover)
        res.count("cli_runs")
        extra = dict(leftover=kind)
        if not dc.ok:
            res.count("observed_run_failed_loudly")
            after = dpin.read_text()
            if after != text and after != expected:
                res.violate("input_replaced_by_mixed_content", kind, lines_after=after.count("\n"), lines_expected=expected.count("\n"),
                            run_error=dc.sig, **extra)
            res["nontrivial"] = True
            return res
        after = dpin.read_text()
        if after != expected:
            res.violate("input_replaced_by_mixed_content", kind, lines_after=after.count("\n"), lines_expected=expected.count("\n"),
                        stale_rows=after.count("STALE_psm"), **extra)
        got = snapshot(ddir / "out")
        if got != clean:
            res.violate("results_depend_on_leftovers", "cli/" + kind, files=sorted(k for k in set(got) | set(clean) if got.get(k) != clean.get(k)), **extra)
        if (ddir / "in.pin.tsv").exists():
            res.violate("intermediate_file_left_behind", "pin.tsv", **extra)
        # an earlier run that fails while it converts the input (its k-th write to <pin>.tsv fails, e.g. a full disk):
        # the user's input must still be the original file or the complete conversion, and the same command run
        # again must give the clean-directory results
        cli = core.mk("mokapot.mokapot")
        fdir = d / "failing"
        fdir.mkdir()
        fpin = fdir / "in.pin"
        fpin.write_text(text)
        fail_at = int(rng.integers(2, len(lines) - 1))

        class _Failing:
            def __init__(self, fh):
                self.fh, self.n = fh, 0

            def write(self, x):
                self.n += 1
                if self.n >= fail_at:
                    raise OSError(28, "No space left on device (injected)")
                return self.fh.write(x)

            def __getattr__(self, a):
                return getattr(self.fh, a)

            def __enter__(self):
                self.fh.__enter__()
                return self

            def __exit__(self, *a):
                return self.fh.__exit__(*a)

        def opener(path, mode="r", *a, **kw):
            fh = open(path, mode, *a, **kw)
            return _Failing(fh) if str(path).endswith(".tsv") and any(ch in mode for ch in "wa") else fh

        cli.open = opener       # shadows the builtin inside mokapot.mokapot only
        try:
            fc = core.Call(main, [str(fpin), "--dest_dir", str(fdir / "out")] + [str(a) for a in args])
        finally:
            del cli.open
        res.count("cli_runs_with_failing_conversion")
        if fc.ok:
            res.count("injected_write_failure_not_reached")
        else:
            after = fpin.read_text()
            if after != text and after != expected:
                res.violate("input_replaced_by_partial_conversion", "failed_conversion", lines_after=after.count("\n"),
                            lines_original=text.count("\n"), failed_write=fail_at, **extra)
            else:
                shutil.rmtree(fdir / "out", ignore_errors=True)
                rc = core.Call(main, [str(fpin), "--dest_dir", str(fdir / "out")] + [str(a) for a in args])
                res.count("cli_runs")
                if rc.ok and snapshot(fdir / "out") != clean:
                    res.violate("results_depend_on_leftovers", "cli/after_failed_conversion", failed_write=fail_at, **extra)
        res["nontrivial"] = True
        res["sample"] = dict(extra, rows=len(df))
    return res


def run_rollup_history(case):
    """brew_rollup: 1..3 earlier rollups (other selections of input sets, base level psm/peptide, destination =
    the input directory / another directory / the input directory spelt with '..', completed or aborted at a file
    event), then the observed rollup; its result files must equal those of the same rollup on a pristine input
    directory holding only the observed inputs."""
    rng = core.seed_seq(case["seed"], "C09", "rollup", case["index"])
    res = Result(case)
    roll = core.mk("mokapot.brew_rollup")

    def rollup(src, dest, base):
        return core.Call(roll.main, ["--level", base, "--src_dir", str(src), "--dest_dir", str(dest), "--verbosity", "0"])

    with core.scratch("c09r") as d:
        pool = d / "pool"
        pool.mkdir()
        nsets = 4
        for si in range(nsets):
            tab = psm.psm_table(rng, n_spectra=int(rng.integers(60, 140)), mult_max=2, key_cols=("ExpMass",), with_rid=False,
                                file_index=si, pep_pool=int(rng.integers(8, 25)))
            p = psm.write_pin(tab, d / f"s{si}.pin")
            s = (tab["df"]["info0"].values + 0.4 * tab["df"]["noise0"].values).astype(float)
            c = pipeline.run_confidence(pipeline.read_datasets([p]), [s], pool, decoys=True, file_root=f"set{si}.", rng=1,
                                        peps_algorithm="kde_nnls")
            if not c.ok:
                res["status"] = "refused" if c.explicit else "inconclusive"
                res["note"] = "producer failed: " + c.sig
                return res

        def install(src, sel):
            src.mkdir(exist_ok=True)
            for f in list(src.iterdir()):
                if f.is_file() and f.name.startswith("set"):
                    f.unlink()
            for si in sel:
                for f in pool.glob(f"set{si}.*"):
                    shutil.copy(f, src / f.name)

        def draw_sel():
            k = int(rng.integers(1, nsets))
            return sorted(int(x) for x in rng.choice(nsets, size=k, replace=False))

        def spell(src, how):
            if how == "same":
                return src
            if how == "dots":
                (d / "x").mkdir(exist_ok=True)
                return d / "x" / ".." / src.name
            o = d / f"dest_{how}"
            o.mkdir(exist_ok=True)
            return o

        src = d / "src"
        hist = []
        for j in range(int(rng.integers(1, 4))):
            sel = draw_sel()
            base = str(rng.choice(["psm", "peptide", "peptide"]))
            how = str(rng.choice(["same", "same", "dots", "other"]))
            fate = str(rng.choice(["complete", "complete", "exception"]))
            install(src, sel)
            dst = spell(src, how)
            if fate == "complete":
                c = rollup(src, dst, base)
                hist.append(dict(sel=sel, base=base, dest=how, fate=fate, ok=c.ok))
            else:
                k = int(rng.integers(1, 12))
                _abort_producer("exception", k, lambda: rollup(src, dst, base), d)
                hist.append(dict(sel=sel, base=base, dest=how, fate=fate, k=k))
        obs_sel = draw_sel()
        obs_base = str(rng.choice(["psm", "peptide", "peptide"]))
        obs_how = str(rng.choice(["same", "dots", "other", "fresh"]))
        install(src, obs_sel)
        debris = sorted(k for k in snapshot(src) if not k.startswith("set"))
        inputs_before = {k: v for k, v in snapshot(src).items() if k.startswith("set")}
        dst = spell(src, obs_how)
        c = rollup(src, dst, obs_base)
        res.count("observed_rollups")
        extra = dict(history=hist, observed=dict(sel=obs_sel, base=obs_base, dest=obs_how), debris=debris[:12])
        # reference: pristine directories
        csrc, cdst = d / "clean_src", d / "clean_dst"
        install(csrc, obs_sel)
        cdst.mkdir()
        c0 = rollup(csrc, cdst, obs_base)
        if not c0.ok:
            res["status"] = "refused" if c0.explicit else "inconclusive"
            res["note"] = "reference rollup failed: " + c0.sig
            return res
        if not c.ok:
            res.count("observed_run_failed_loudly")
            res.setdefault("loud_failures", []).append(c.sig)
        else:
            names = {k for k in snapshot(cdst) if ".targets." in k or ".decoys." in k}
            ref = {k: v for k, v in snapshot(cdst).items() if k in names}
            got = {k: v for k, v in snapshot(dst).items() if k in names}
            if got != ref:
                diff = sorted(k for k in names if got.get(k) != ref.get(k))
                res.violate("results_depend_on_leftovers", "rollup/" + ",".join(x.split(".")[-1] for x in diff)[:50], files=diff, **extra)
            res.count("rollup_result_files_compared", len(names))
            after_inputs = {k: v for k, v in snapshot(src).items() if k.startswith("set")}
            if after_inputs != inputs_before:
                res.violate("input_file_changed", "rollup", **extra)
        res["nontrivial"] = bool(debris) or any(h["dest"] != "same" for h in hist)
        res["key"] = f"rollup/{len(hist)}/{obs_base}/{obs_how}/{'debris' if debris else 'nodebris'}"
        res["sample"] = extra
    return res


def run_case(case):
    return {"crashpoints": run_crashpoints, "histories": run_histories, "cli_tsv": run_cli_tsv,
            "rollup_history": run_rollup_history}[case["class"]](case)
