"""C18 - generated decoys preserve length, composition and cleavage structure.

Differential monitor on the file written by mokapot.make_decoys: an independent
FASTA reader re-reads the output; every decoy is compared peptide by peptide with
its target using cleavage sites computed by the harness from the *target*.
"""
from __future__ import annotations

import re

import numpy as np

from vf import core
from vf.core import Result

LEVEL = "exploration"
RULE = (
    "FASTA inputs of 1..40 entries (lengths 0..400; wrapped at 60/70/80 columns or unwrapped; with/without "
    "trailing newline and descriptions; sequences without cleavage sites, ending in the cleavage residue, with stop/gap symbols (* - X U), with "
    "runs of it; 1..3 input files) x shuffle/reverse x concatenate on/off x enzymes [KR], K, [DE] (str and "
    "compiled) x fresh np.random seed. Non-trivial = some target has an enzymatic peptide of length >=4 "
    "(an interior that can move); distinct = (seed,index,rep)."
    " Descriptions may contain '>' (5'->3' exonuclease, merged deflines)."
)
ASSUMPTIONS = ["'any RNG state' is sampled (np.random.seed drawn per case)",
               "descriptions after the name are not part of 'name' and are not judged"]

CUT = {"[KR]": "KR", "K": "K", "[DE]": "DE"}


def fasta_read(text):
    """Independent minimal FASTA reader: list[(name, seq)]."""
    out = []
    name = None
    seq = []
    for line in text.split("\n"):
        if line.startswith(">"):
            if name is not None:
                out.append((name, "".join(seq)))
            name = line[1:].split(" ")[0]
            seq = []
        elif name is not None:
            seq.append(line.strip())
    if name is not None:
        out.append((name, "".join(seq)))
    return out


def gen_fasta(rng, enzyme):
    cut = CUT[enzyme]
    n = int(rng.integers(1, 41))
    alpha = list("ACDEFGHIKLMNPQRSTVWY")
    entries = []
    for i in range(n):
        mode = rng.choice(["normal", "nocut", "endcut", "runs", "empty", "short"], p=[.5, .1, .1, .1, .05, .15])
        L = int(rng.integers(1, 401))
        if mode == "empty":
            seq = ""
        elif mode == "short":
            seq = "".join(rng.choice(alpha, size=int(rng.integers(1, 6))))
        else:
            seq = "".join(rng.choice(alpha, size=L))
            if mode == "nocut":
                seq = "".join(c for c in seq if c not in cut) or "A"
            if mode == "endcut":
                seq = seq + cut[0]
            if mode == "runs":
                k = int(rng.integers(0, len(seq)))
                seq = seq[:k] + cut[0] * int(rng.integers(2, 6)) + seq[k:]
        if seq and rng.random() < 0.25:
            # symbols that are legal in FASTA sequences but are not letters: stop (*), gap (-), unknown residue codes
            sym = str(rng.choice(["*", "-", "X", "U"]))
            k = int(rng.integers(0, len(seq) + 1)) if rng.random() < 0.5 else len(seq)
            seq = seq[:k] + sym + seq[k:]
        entries.append((f"sp|Q{i:04d}|PROT{i}_TEST", seq))
    return entries


def render(entries, rng):
    width = int(rng.choice([0, 60, 70, 80]))
    desc = bool(rng.integers(0, 2))
    lines = []
    for name, seq in entries:
        # descriptions may contain any printable text, including '>' (5'->3' exonuclease, merged nr deflines)
        dtext = [" Some protein OS=Homo sapiens GN=X", " 5'->3' exonuclease OS=Homo sapiens", " kinase A >gi|222|gb|AAA1.1| kinase A"][int(rng.integers(0, 3))]
        lines.append(">" + name + (dtext if desc else ""))
        if width and seq:
            lines += [seq[i:i + width] for i in range(0, len(seq), width)]
        elif seq:
            lines.append(seq)
    return "\n".join(lines) + ("\n" if rng.integers(0, 2) else "")


def plan(seed, tier):
    n = 32 if tier == "quick" else 5000
    return [{"class": "decoys", "index": i, "reps": 20, "cost": 1} for i in range(n)]


MANDATORY_CLASSES = ["decoys"]


def run_case(case):
    mokapot = core.import_mokapot()
    rng = core.seed_seq(case["seed"], "C18", case["index"])
    res = Result(case)
    nt = evals = 0
    with core.scratch("c18") as d:
        for rep in range(case["reps"]):
            enzyme = ["[KR]", "K", "[DE]"][rep % 3]
            cut = CUT[enzyme]
            reverse = bool((rep // 3) % 2)
            concat = bool(rng.integers(0, 2))
            prefix = str(rng.choice(["decoy_", "rev_", "XXX_"]))
            nfiles = int(rng.choice([1, 1, 2, 3]))
            targets = []
            paths = []
            for f in range(nfiles):
                e = gen_fasta(rng, enzyme)
                e = [(f"f{f}_" + nm, s) for nm, s in e]
                targets += e
                p = d / f"in{rep}_{f}.fasta"
                text = render(e, rng)
                if (rep + f) % 3 == 2:
                    # a database saved on Windows: CRLF line endings (multi-line records included)
                    p.write_bytes(text.replace("\n", "\r\n").encode())
                    res.count("crlf_inputs")
                else:
                    p.write_text(text)
                paths.append(str(p))
            out = d / f"out{rep}.fasta"
            np.random.seed(int(rng.integers(0, 2**31)))
            enz = re.compile(enzyme) if rep % 2 else enzyme
            c = core.Call(mokapot.make_decoys, paths if nfiles > 1 else paths[0], str(out), decoy_prefix=prefix,
                          enzyme=enz, reverse=reverse, concatenate=concat)
            evals += 1
            extra = dict(enzyme=enzyme, reverse=reverse, concatenate=concat, n_targets=len(targets), files=nfiles)
            if not c.ok:
                res.violate("crash", c.sig, msg=c.info["msg"], **extra)
                continue
            got = fasta_read(out.read_text())
            exp_n = len(targets) * (2 if concat else 1)
            if len(got) != exp_n:
                res.violate("entry_count", f"concat={concat}", got=len(got), expected=exp_n, **extra)
                continue
            if concat:
                if got[: len(targets)] != targets:
                    i = next(i for i, (a, b) in enumerate(zip(got, targets)) if a != b)
                    res.violate("targets_changed", "concat", index=i, got=got[i], expected=targets[i], **extra)
                    continue
                decoys = got[len(targets):]
            else:
                decoys = got
            interesting = False
            for (tn, ts), (dn, dsq) in zip(targets, decoys):
                if dn != prefix + tn:
                    res.violate("decoy_name", "", got=dn, expected=prefix + tn, **extra)
                    break
                if len(dsq) != len(ts):
                    res.violate("length", "", target=ts, decoy=dsq, **extra)
                    break
                if sorted(dsq) != sorted(ts):
                    res.violate("composition", "", target=ts, decoy=dsq, **extra)
                    break
                sites = sorted({0, len(ts)} | {i + 1 for i, ch in enumerate(ts) if ch in cut})
                bad = False
                for a, b in zip(sites[:-1], sites[1:]):
                    if b - a >= 4:
                        interesting = True
                    if dsq[a] != ts[a] or dsq[b - 1] != ts[b - 1]:
                        res.violate("terminus_moved", f"reverse={reverse}", target=ts[a:b], decoy=dsq[a:b], at=[a, b], **extra)
                        bad = True
                        break
                    if sorted(dsq[a:b]) != sorted(ts[a:b]):
                        res.violate("peptide_composition", f"reverse={reverse}", target=ts[a:b], decoy=dsq[a:b], **extra)
                        bad = True
                        break
                    if reverse and b - a >= 2 and dsq[a + 1:b - 1] != ts[a + 1:b - 1][::-1]:
                        res.violate("not_reversed", "", target=ts[a:b], decoy=dsq[a:b], **extra)
                        bad = True
                        break
                if bad:
                    break
                # cleavage sites identical in target and decoy for a residue-class enzyme
                if [i for i, ch in enumerate(dsq) if ch in cut] != [i for i, ch in enumerate(ts) if ch in cut]:
                    res.violate("cleavage_sites_differ", enzyme, target=ts[:80], decoy=dsq[:80], **extra)
                    break
            # mokapot's own reader recovers names and sequences from the written file
            fa = core.mk("mokapot.parsers.fasta")
            c2 = core.Call(lambda: [fa._parse_protein(e) for e in fa._parse_fasta_files(str(out))])
            res.count("reread_calls")
            if c2.ok and [tuple(x) for x in c2.value] != got:
                res.violate("reread_differs", "", n=len(got), **extra)
            if interesting:
                nt += 1
            if rep == 0:
                res["sample"] = dict(extra, first_target=targets[0][1][:60], first_decoy=decoys[0][1][:60])
    res["evals"] = evals
    res["distinct_n"] = nt
    res["nontrivial"] = nt > 0
    return res
