"""C05 - results do not depend on chunk sizes, worker count, thread timing or file format.

Metamorphic monitor: the identical table is pushed through read_pin -> brew ->
assign_confidence in a baseline configuration (one chunk, one worker, text) and in
variants that differ only in one streaming chunk size, the worker count (with
seeded delays inside fit/score and a tiny GIL switch interval), or the file format
(Parquet with assorted row-group sizes); scores and every result file must agree.
Thorough tier additionally configures whole runs in fresh interpreters through the
documented MOKAPOT_* environment variables only.
"""
from __future__ import annotations

import io
import json
import os
import subprocess
import sys

import numpy as np
import pandas as pd

from vf import core
from vf.core import Result
from vf.gens import psm
from vf.instruments import pipeline_main

LEVEL = "exploration"
RULE = (
    "per table (300..900 PSMs, tie-free features, spectrum multiplicity 1..4, rows shuffled or grouped by spectrum, "
    "dedup on/off, learners linear / svc / an order-sensitive online learner / a predict_proba-only logistic learner whose probabilities are strictly monotone in a linear score, hence tie-free): baseline vs variants {each of the six chunk-size constants in "
    "{1,2,3,7,n-1,n,n+1,ceil(n/2), sizes leaving a 1-row last chunk}, workers {2,3,4,8,16} with seeded delays inside every joblib task function (vf.instruments.scheduler) and inside fit/score, "
    "Parquet row groups {1,3,prime,n,default}, one variant for every further integer tunable discovered in mokapot.constants, pairs of constants, and Parquet or several workers combined with a chunk size}; env class: the same comparison with MOKAPOT_* variables in fresh "
    "interpreters; schedule class: tie-heavy scores, identical chunk sizes, 1 worker vs 2..8 workers under perturbed task schedules, result files compared byte for byte. Non-trivial = a variant whose chunk size is smaller than the table, or >1 worker with >=2 "
    "threads observed, or Parquet input; distinct = (table seed, variant)."
    " Every sixth table is rescored with ensemble=True (baseline and variants)."
    " Every seventh table has a retention-time key column that is empty for 20% of the spectra."
    " Every fourth table has three feature columns with a few missing values."
)
ASSUMPTIONS = [
    "tolerances: scores rtol 1e-9 for the closed-form learner, 2e-3 for LinearSVC on text-vs-Parquet only (its iterative solver, tol 1e-4, amplifies the 1-ulp feature differences of pandas' float parser; differences up to 5e-5 were observed); q-values rtol 1e-5 (float32 / text formatting); PEPs rtol 1e-6 when the scores of both runs are bit-identical, else not compared numerically (triqler's spline fit amplifies a 1-ulp score difference to PEP differences of several percent)",
    "features are tie-free; the cross-fold score ties created by calibration (one PSM per fold at exactly 0 / -1) are compared tie-tolerantly",
    "a configuration in which baseline and variant both stop with the same explicit error is 'held'",
]
CASE_TIMEOUT = 1200
CONSTS = list(core.CHUNK_CONSTANTS)


def plan(seed, tier):
    n = 24 if tier == "quick" else 300
    cases = [{"class": "inproc", "index": i, "nvar": 10 if tier == "quick" else 14, "cost": 12} for i in range(n)]
    cases += [{"class": "schedule", "index": i, "cost": 8} for i in range(8 if tier == "quick" else 120)]
    if tier == "thorough":
        cases += [{"class": "env", "index": i, "nvar": 4, "cost": 40} for i in range(24)]
    else:
        cases += [{"class": "env", "index": i, "nvar": 2, "cost": 40} for i in range(3)]
    return cases


MANDATORY_CLASSES = ["inproc", "env", "schedule"]


def read_files(dest):
    out = {}
    for p in sorted(dest.iterdir()):
        if p.is_file() and not p.name.startswith("_"):
            out[p.name] = pd.read_csv(p, sep="\t")
    return out


def compare(base, var, bfiles, vfiles, score_rtol=1e-9):
    """None or (kind, detail)."""
    if base["status"] != "ok" or var["status"] != "ok":
        if base["status"] != "ok" and var["status"] != "ok":
            if base.get("sig") == var.get("sig"):
                return None
            return ("different_errors", {"baseline": base.get("sig"), "variant": var.get("sig")})
        which = "variant" if var["status"] != "ok" else "baseline"
        bad = var if var["status"] != "ok" else base
        return ("run_fails_in_one_configuration", {"failing": which, "stage": bad.get("stage"), "sig": bad.get("sig"),
                                                   "msg": (bad.get("error") or {}).get("msg")})
    sb = [np.asarray(s) for s in base["scores"]]
    sv = [np.asarray(s) for s in var["scores"]]
    if len(sb) != len(sv) or any(a.shape != b.shape for a, b in zip(sb, sv)):
        return ("score_shape", {"baseline": [a.shape for a in sb], "variant": [a.shape for a in sv]})
    for a, b in zip(sb, sv):
        if not np.allclose(a, b, rtol=score_rtol, atol=score_rtol if score_rtol > 1e-6 else 1e-12):
            i = int(np.argmax(np.abs(a - b)))
            return ("scores_differ", {"row": i, "baseline": float(a[i]), "variant": float(b[i]),
                                      "n_differing": int((~np.isclose(a, b, rtol=score_rtol, atol=1e-12)).sum())})
    if base.get("descs") != var.get("descs"):
        return ("descs_differ", {"baseline": base.get("descs"), "variant": var.get("descs")})
    if sorted(bfiles) != sorted(vfiles):
        return ("result_files_differ", {"baseline": sorted(bfiles), "variant": sorted(vfiles)})
    # per-fold calibration puts one PSM of every fold at exactly 0 and (odd decoy counts) at exactly -1:
    # those cross-fold ties are legitimate, their relative order and (at rollup levels) which of two tied
    # PSMs represents an entity may differ. Rows are compared in (score, id) order; identifiers must agree
    # wherever the score value is unique in the score vector.
    allscores = np.concatenate(sb) if sb else np.array([])
    identical_scores = all(np.array_equal(a, b) for a, b in zip(sb, sv))
    vals, counts = np.unique(np.round(allscores, 12), return_counts=True)
    tied = set(vals[counts > 1].tolist())
    for name in bfiles:
        x, y = bfiles[name], vfiles[name]
        if list(x.columns) != list(y.columns):
            return ("result_columns_differ", {"file": name})
        if len(x) != len(y):
            return ("result_rows_differ", {"file": name, "baseline": len(x), "variant": len(y)})
        if score_rtol > 1e-6:
            # scores only agree to solver tolerance: neighbouring rows may swap, nothing row-wise is comparable
            continue
        for fr_name, fr in (("baseline", x), ("variant", y)):
            sc = fr["score"].values.astype(float)
            if np.any(np.diff(sc) > 1e-12):
                return ("result_not_sorted", {"file": name, "which": fr_name})
        idcol = x.columns[0]
        x = x.assign(_s=-x["score"].astype(float)).sort_values(["_s", idcol], kind="stable").reset_index(drop=True)
        y = y.assign(_s=-y["score"].astype(float)).sort_values(["_s", idcol], kind="stable").reset_index(drop=True)
        untied = ~np.isin(np.round(x["score"].values.astype(float), 12), list(tied))
        for c in x.columns:
            if c == "_s":
                continue
            if c == "score":
                ok = np.allclose(x[c].values.astype(float), y[c].values.astype(float), rtol=score_rtol, atol=1e-12)
            elif c in ("q-value", "q_value"):
                ok = np.allclose(x[c].values.astype(float), y[c].values.astype(float), rtol=1e-5, atol=1e-9)
            elif c == "posterior_error_prob":
                # the PEP fits (iterative spline / KDE) amplify 1-ulp score differences far beyond
                # summation error; a tight tolerance applies only when the scores were bit-identical
                if identical_scores:
                    ok = np.allclose(x[c].values.astype(float), y[c].values.astype(float), rtol=1e-6, atol=1e-9)
                else:
                    # triqler's spline fit was observed to turn a 2e-16 difference in two of 229 scores into
                    # PEP differences of 0.07: not comparable; range/monotonicity are C06's business
                    ok = True
            else:
                a = np.asarray(x[c].astype(str).tolist(), dtype=object)[untied]
                b = np.asarray(y[c].astype(str).tolist(), dtype=object)[untied]
                ok = a.tolist() == b.tolist()
            if not ok:
                return ("result_values_differ", {"file": name, "column": c, "baseline": x[c].tolist()[:4], "variant": y[c].tolist()[:4]})
    return None


def chunk_values(rng, n):
    prime = int(rng.choice([5, 11, 37, 101]))
    cands = [1, 2, 3, 7, n - 1, n, n + 1, -(-n // 2), prime]
    # a size that leaves exactly one row in the last chunk
    for k in (2, 3, 5, 10):
        if (n - 1) % k == 0:
            cands.append((n - 1) // k if (n - 1) // k > 0 else 1)
            break
    return [int(c) for c in cands if c >= 1]


def make_table(rng, case):
    if case["index"] % 5 == 4:
        from vf.gens import prot

        db = prot.protein_db(rng, n_prot=90, anagrams=6)
        tab = prot.psm_table_for_db(rng, db, n_spectra=int(rng.integers(250, 400)), styles=("plain", "mod_sq"), sep=1.5)
        tab["db"] = db
        return tab
    grouped = bool(case["index"] % 3 == 1)
    missing_rt = bool(case["index"] % 7 == 3)
    keys = [("ExpMass",), ("filename", "ExpMass"), ()][case["index"] % 3]
    if missing_rt:
        keys = tuple(keys) + ("ret_time",)
    tab = psm.psm_table(rng, n_spectra=int(rng.integers(120, 330)), mult_max=int(rng.integers(1, 5)),
                        key_cols=keys, n_files=2,
                        levels=(("ModifiedPeptide",) if case["index"] % 4 == 0 else ()), shuffle=not grouped,
                        n_info=2, n_noise=int(rng.integers(1, 22)), sep_strength=3.0, pi1=0.55)
    if missing_rt:
        # an optional spectrum-key column (retention time) that the search engine left empty for some spectra:
        # all PSMs of such a spectrum carry the missing value; the scan number still tells the spectra apart
        specs = tab["truth"]["spec"].values
        gone = set(np.unique(specs)[rng.random(len(np.unique(specs))) < 0.2].tolist())
        tab["df"].loc[[s_ in gone for s_ in specs], "ret_time"] = np.nan
    if case["index"] % 4 == 2:
        # feature columns with a few missing values (early / late / anywhere in the file): read_pin drops them,
        # whatever the scan chunk sizes
        df = tab["df"]
        pos = list(df.columns).index("Peptide")
        n = len(df)
        for j, (nm, where) in enumerate([("gap_early", "early"), ("zz_gap_late", "late"), ("Gap_any", "any")]):
            col = rng.normal(size=n)
            k = int(rng.integers(1, 4))
            idx = {"early": rng.integers(0, max(1, n // 10), size=k), "late": rng.integers(n - max(1, n // 10), n, size=k),
                   "any": rng.integers(0, n, size=k)}[where]
            col[idx] = np.nan
            df.insert(pos - j, nm, col)
        tab["df"] = df
    return tab


def run_inproc(case):
    rng = core.seed_seq(case["seed"], "C05", "inproc", case["index"])
    res = Result(case)
    sys.setswitchinterval(1e-6)
    with core.scratch("c05") as d:
        tab = make_table(rng, case)
        n = len(tab["df"])
        pin = psm.write_pin(tab, d / "t.pin")
        # 'online' is a deterministic learner whose result depends on the order of its training rows: if chunking or
        # thread timing changed the order in which training rows are assembled, its scores would change
        common = dict(learner=["linear", "svc", "online", "logit:proba"][case["index"] % 4], folds=int(2 + case["index"] % 3), seed=int(rng.integers(1 << 30)),
                      test_fdr=0.1, train_fdr=0.1, max_iter=2, dedup=bool(case["index"] % 4 != 3), rollup=True,
                      peps_algorithm=["kde_nnls", "qvality", "kde_nnls"][case["index"] % 3])
        # every sixth table is rescored in ensemble mode (every fold model scores every PSM; another prediction path)
        if case["index"] % 6 == 2:
            common["ensemble"] = True
        if tab.get("db") is not None:
            from vf.gens import prot

            common["fasta"] = str(prot.write_fasta(tab["db"], d / "db.fasta", with_decoys=True))
            common["fasta_kwargs"] = dict(missed_cleavages=0, min_length=6)
        base = pipeline_main.run(dict(common, paths=[str(pin)], dest=str(d / "base"), workers=1))
        bfiles = read_files(d / "base") if base["status"] == "ok" else {}
        res.count("pipeline_runs")
        extra = dict(rows=n, dedup=common["dedup"], learner=common["learner"], folds=common["folds"],
                     n_features=len(tab["features"]), ensemble=bool(common.get("ensemble")))
        if base["status"] != "ok" and not base.get("explicit"):
            # a failure of the baseline configuration itself is not a statement about chunking (the PEP estimators'
            # own failures are C06's business); the variants must then fail in the same way, which compare() checks
            res.count("baseline_failed:" + str(base.get("sig")))
        variants = []
        vals = chunk_values(rng, n)
        for k in range(case["nvar"]):
            kind = ["chunk", "two_chunks", "parquet+chunk", "workers", "parquet", "two_chunks", "workers+chunk", "chunk"][k % 8]
            if kind == "chunk":
                const = CONSTS[(case["index"] + k) % len(CONSTS)]
                v = int(rng.choice(vals))
                if const == "CHUNK_SIZE_COLUMNS_FOR_DROP_COLUMNS":
                    v = int(rng.integers(1, 26))
                variants.append({"kind": "chunk", "const": const, "value": v})
            elif kind == "two_chunks":
                c1, c2 = [str(c) for c in rng.choice(CONSTS, size=2, replace=False)]
                pair = {}
                for c in (c1, c2):
                    pair[c] = int(rng.integers(1, 26)) if c == "CHUNK_SIZE_COLUMNS_FOR_DROP_COLUMNS" else int(rng.choice(vals))
                variants.append({"kind": "chunk", "const": c1, "value": pair[c1], "pair": pair})
            elif kind == "workers":
                variants.append({"kind": "workers", "workers": int(rng.choice([2, 3, 4, 8, 16])), "delay": 0.003})
            elif kind == "parquet":
                variants.append({"kind": "parquet", "row_group": int(rng.choice([1, 3, 37, n, 10**6]))})
            else:
                const = CONSTS[(case["index"] + k) % len(CONSTS)]
                v = int(rng.choice(vals)) if const != "CHUNK_SIZE_COLUMNS_FOR_DROP_COLUMNS" else int(rng.integers(1, 26))
                if kind == "parquet+chunk":
                    variants.append({"kind": "parquet", "row_group": int(rng.choice([1, 3, 37, n, 10**6])), "const": const, "value": v})
                else:
                    variants.append({"kind": "workers", "workers": int(rng.choice([2, 3, 8])), "delay": 0.003, "const": const, "value": v})
        # tunables of the tree under test that are not among the six known constants: one variant each
        for const in core.extra_chunk_constants():
            variants.append({"kind": "chunk", "const": const, "value": int(rng.choice([1, 2, 3, 7] + vals))})
            res.count("variants_for_discovered_constants")
        nt = 0
        keys = []
        # history: something else in this process started a merge of its own sorted files earlier and took only the top
        # rows (the generator stays alive, partly consumed); the chunked variants below merge their chunk files afterwards
        abandoned = []
        if case["index"] % 2 == 0:
            import itertools

            import pandas as pd

            hp = []
            for j, top in enumerate((1e9, -1e9, 0.0)):
                f = d / f"history{j}.csv"
                pd.DataFrame({"score": [top, top - 1, top - 2, top - 3], "id": range(4)}).to_csv(f, sep="\t", index=False)
                hp.append(f)
            c = core.Call(lambda: abandoned.append((g := core.mk("mokapot.utils").merge_sort(hp, score_column="score"),
                                                    list(itertools.islice(g, 2)))))
            if c.ok:
                res.count("variant_groups_after_abandoned_merge")
        for vi, v in enumerate(variants):
            spec = dict(common, dest=str(d / f"v{vi}"), workers=1, paths=[str(pin)])
            if v.get("const"):
                spec["chunk_sizes"] = dict(v.get("pair") or {v["const"]: v["value"]})
            if v["kind"] == "chunk":
                pass
            elif v["kind"] == "workers":
                spec.update(workers=v["workers"], delay=v["delay"], perturb=int(rng.integers(1 << 30)),
                            chunk_sizes=dict(spec.get("chunk_sizes") or {}))
                # several tasks per Parallel call are needed for the schedule to matter
                spec["chunk_sizes"].setdefault("CHUNK_SIZE_READ_ALL_DATA", max(2, n // 7))
                spec["chunk_sizes"].setdefault("CONFIDENCE_CHUNK_SIZE", max(2, n // 5))
                spec["chunk_sizes"].setdefault("CHUNK_SIZE_ROWS_PREDICTION", max(5, n // 6))
            else:
                pq = psm.write_parquet(tab, d / f"t{vi}.parquet", row_group_size=v["row_group"])
                spec["paths"] = [str(pq)]
            out = pipeline_main.run(spec)
            res.count("pipeline_runs")
            vfiles = read_files(d / f"v{vi}") if out["status"] == "ok" else {}
            # identical inputs must give identical scores (1e-9); for text vs Parquet the features differ by one ulp
            # (pandas' float parser) and LinearSVC's iterative solver (tol 1e-4) may stop elsewhere
            loose = common["learner"] == "svc" and v["kind"] == "parquet"
            diff = compare(base, out, bfiles, vfiles, score_rtol=2e-3 if loose else 1e-9)
            if diff:
                res.violate(diff[0], v.get("const") or v["kind"], variant=v, detail=diff[1], **extra)
            if v["kind"] == "workers":
                res.count("multiworker_runs")
                res.count("threads_seen_in_multiworker_runs", out.get("sched_threads", 0))
                res.count("task_kinds_finished_out_of_order", out.get("sched_out_of_order_kinds", 0))
                res.count("scheduled_tasks", out.get("sched_tasks", 0))
                if out.get("sched_signature"):
                    res.setdefault("sched_signatures", []).append(out["sched_signature"])
            if (v.get("const") and v["value"] < n) or v["kind"] == "parquet" or (v["kind"] == "workers" and out.get("sched_threads", 0) >= 2):
                nt += 1
                keys.append(f"{case['seed']}/{case['index']}/{json.dumps(v, sort_keys=True)}")
            if len(res["violations"]) >= 4:
                break
        res["evals"] = 1 + len(variants)
        res["key"] = keys or res["key"]
        res["nontrivial"] = nt > 0
        res["sample"] = dict(extra, variants=variants[:4], baseline_status=base["status"])
    return res


ENVMAP = {c: "MOKAPOT_" + c for c in CONSTS}


def _subprocess_run(spec, env_extra, hashseed="0"):
    spec_path = os.path.join(spec["dest"], "_spec.json")
    os.makedirs(spec["dest"], exist_ok=True)
    with open(spec_path, "w") as fh:
        json.dump(spec, fh)
    env = {k: v for k, v in os.environ.items() if not (k.startswith("MOKAPOT_") and k != "MOKAPOT_REPO")}
    env.update(env_extra)
    env["PYTHONHASHSEED"] = str(hashseed)
    env["PYTHONPATH"] = f"{core.REPO}:{core.VERIF}"
    p = subprocess.run([core.PYTHON, "-W", "ignore", "-m", "vf.instruments.pipeline_main", spec_path], env=env,
                       capture_output=True, text=True, timeout=600)
    try:
        return json.load(open(os.path.join(spec["dest"], "_artefacts.json")))
    except Exception:  # noqa: BLE001
        return {"status": "harness_error", "trace": (p.stderr or "")[-1500:]}


def run_env(case):
    from pathlib import Path

    rng = core.seed_seq(case["seed"], "C05", "env", case["index"])
    res = Result(case)
    with core.scratch("c05e") as d:
        tab = make_table(rng, case)
        n = len(tab["df"])
        pin = psm.write_pin(tab, d / "t.pin")
        common = dict(learner="linear", folds=3, seed=int(rng.integers(1 << 30)), test_fdr=0.1, train_fdr=0.1, max_iter=2,
                      dedup=bool(case["index"] % 2), rollup=True, peps_algorithm="kde_nnls", paths=[str(pin)], workers=1)
        base = _subprocess_run(dict(common, dest=str(d / "base")), {})
        res.count("subprocess_runs")
        if base["status"] == "harness_error":
            res["status"] = "inconclusive"
            res["note"] = base.get("trace", "")[-600:]
            return res
        bfiles = read_files(d / "base") if base["status"] == "ok" else {}
        vals = chunk_values(rng, n)
        nt = 0
        for vi in range(case["nvar"]):
            env = {}
            for const in rng.choice(CONSTS, size=int(rng.integers(1, 4)), replace=False):
                v = int(rng.choice(vals))
                if const == "CHUNK_SIZE_COLUMNS_FOR_DROP_COLUMNS":
                    v = int(rng.integers(1, 26))
                env[ENVMAP[str(const)]] = str(v)
            out = _subprocess_run(dict(common, dest=str(d / f"v{vi}")), env)
            res.count("subprocess_runs")
            if out["status"] == "harness_error":
                res["status"] = "inconclusive"
                res["note"] = out.get("trace", "")[-600:]
                return res
            vfiles = read_files(d / f"v{vi}") if out["status"] == "ok" else {}
            diff = compare(base, out, bfiles, vfiles)
            if diff:
                res.violate(diff[0], "env", env=env, detail=diff[1], rows=n)
            nt += 1
        res["evals"] = 1 + case["nvar"]
        res["nontrivial"] = nt > 0
        res["sample"] = {"rows": n, "last_env": env}
    return res


def run_schedule(case):
    """Same chunk sizes, one worker vs several workers under perturbed schedules, on *tie-heavy* scores: here even the
    choice among tied PSMs must not depend on which worker thread finishes first, so result files are compared byte for
    byte (ties across chunk *sizes* may legitimately resolve differently, ties across *schedules* may not)."""
    import hashlib
    from vf.instruments import pipeline, scheduler

    rng = core.seed_seq(case["seed"], "C05", "schedule", case["index"])
    res = Result(case)
    with core.scratch("c05s") as d:
        tab = psm.psm_table(rng, n_spectra=int(rng.integers(100, 250)), mult_max=3, key_cols=("ExpMass",), with_rid=False)
        n = len(tab["df"])
        path = psm.write_pin(tab, d / "t.pin") if case["index"] % 2 else psm.write_parquet(tab, d / "t.parquet", row_group_size=41)
        scores = np.round(tab["df"]["info0"].values.astype(float) * 2) / 2  # coarse: many exact ties across chunks
        chunk = int(rng.choice([max(2, n // 9), max(2, n // 4), 13]))

        def run(dest, workers, seed):
            ds = pipeline.read_datasets([path], max_workers=workers)
            with core.chunk_sizes(CONFIDENCE_CHUNK_SIZE=chunk, MERGE_SORT_CHUNK_SIZE=int(rng.choice([3, 50, 10**5]))):
                if workers > 1:
                    with scheduler.perturb(seed) as tr:
                        c = pipeline.run_confidence(ds, [scores.copy()], dest, decoys=True, rng=3, max_workers=workers,
                                                    peps_algorithm="kde_nnls", deduplication=bool(case["index"] % 3))
                    res.count("task_kinds_finished_out_of_order", tr.out_of_order())
                    res.count("threads_seen", tr.threads())
                else:
                    c = pipeline.run_confidence(ds, [scores.copy()], dest, decoys=True, rng=3, max_workers=1,
                                                peps_algorithm="kde_nnls", deduplication=bool(case["index"] % 3))
            return c
        c0 = run(d / "w1", 1, 0)
        res.count("assign_confidence_calls")
        if not c0.ok:
            res["status"] = "refused"
            res["note"] = c0.sig
            return res
        ref = {p.name: hashlib.sha256(p.read_bytes()).hexdigest() for p in sorted((d / "w1").iterdir()) if p.is_file()}
        for k in range(4):
            w = int(rng.choice([2, 3, 4, 8]))
            c = run(d / f"w{k + 2}", w, int(rng.integers(1 << 30)))
            res.count("assign_confidence_calls")
            if not c.ok:
                res.violate("run_fails_in_one_configuration", "schedule", workers=w, sig=c.sig, msg=c.info["msg"], rows=n, chunk=chunk)
                continue
            got = {p.name: hashlib.sha256(p.read_bytes()).hexdigest() for p in sorted((d / f"w{k + 2}").iterdir()) if p.is_file()}
            if got != ref:
                res.violate("result_depends_on_thread_schedule", "tied_scores", workers=w, rows=n, chunk=chunk,
                            files=sorted(f for f in set(ref) | set(got) if ref.get(f) != got.get(f)))
        res["evals"] = 5
        res["nontrivial"] = True
        res["sample"] = {"rows": n, "chunk": chunk, "distinct_scores": int(len(np.unique(scores)))}
    return res


def run_case(case):
    return {"inproc": run_inproc, "env": run_env, "schedule": run_schedule}[case["class"]](case)


def finalize(cases, results, tier):
    sigs = set()
    for r in results:
        for x in r.get("sched_signatures", []) or []:
            sigs.add(x)
    return {"results": [], "coverage": {"distinct_task_completion_orders_seen": len(sigs)}}
