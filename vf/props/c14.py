"""C14 - k-way merge returns every row once, globally sorted by score.

Differential monitor at the API boundary of both merge implementations
(mokapot.utils.merge_sort over files; MergedTabularDataReader / merge_readers over
readers) with a unique id per row so that every output row identifies its input row.
"""
from __future__ import annotations

import itertools

from pathlib import Path

import numpy as np
import pandas as pd

from vf import core
from vf.core import Result

LEVEL = "exploration"
RULE = (
    "1..8 score-sorted inputs of 1..200 rows (tie density none..heavy, single-row inputs), text and Parquet, "
    "reader/merge chunk sizes 1..N+1; implementations: utils.merge_sort, MergedTabularDataReader in DataFrame/"
    "Dicts/Records row modes, read(), chunked iterator, merge_readers; ascending and descending; class unsorted "
    "plants one inversion (first/middle/last row or chunk boundary) and expects a rejection. Non-trivial = >=2 "
    "inputs and a score value occurring in >=2 different inputs; distinct = (seed,index,rep)."
    " The score / priority column is the caller's choice (score, svm_score, q), half of the renamed inputs also carry an unrelated unsorted column called 'score'; merge_sort called with the column positionally or by keyword."
    " Tie mode inthead: the first rows of an input are whole numbers; half of the text inputs write numbers the short way (%.17g)."
)
ASSUMPTIONS = ["inputs are written with pandas/pyarrow by the harness; values are compared after the same "
               "library's round trip (type inference of text is C13's business)"]


def gen_inputs(rng, ascending=False, kmax=8, nmax=200):
    k = int(rng.integers(1, kmax + 1))
    tie = rng.choice(["none", "some", "heavy", "constant", "inthead"], p=[.25, .25, .25, .1, .15])
    frames = []
    nid = 0
    for j in range(k):
        n = int(rng.choice([1, 1, 2, 3, 10, 50, nmax]))
        if tie == "none":
            s = rng.normal(size=n)
        elif tie == "some":
            s = np.round(rng.normal(size=n), 1)
        elif tie == "heavy":
            s = rng.integers(0, 3, size=n).astype(float)
        elif tie == "inthead":
            # quarter-valued scores whose first rows (in file order) are whole numbers: written the short way (12
            # instead of 12.0) the column looks integer-typed to a reader that only sees the head of the file
            s = np.round(rng.normal(size=n) * 3, 2)
        else:
            s = np.zeros(n)
        s = np.sort(s)
        if not ascending:
            s = s[::-1]
        if tie == "inthead":
            h = int(min(n, rng.integers(1, 4)))
            if ascending:
                s[:h] = np.floor(s[0]) - np.arange(h, 0, -1)
            else:
                s[:h] = np.ceil(s[0]) + np.arange(h, 0, -1)
        df = pd.DataFrame({"id": np.arange(nid, nid + n), "score": s.copy(),
                           "txt": [f"r{j}_{i}" for i in range(n)], "val": rng.integers(-5, 5, size=n)})
        nid += n
        frames.append(df)
    return frames, str(tie)


def write_inputs(frames, d, fmt, rng):
    paths = []
    short_numbers = bool(rng.random() < 0.5)   # 12 instead of 12.0 in text files
    for j, df in enumerate(frames):
        if fmt == "parquet":
            p = Path(d) / f"in{j}.parquet"
            import pyarrow as pa
            import pyarrow.parquet as pq

            pq.write_table(pa.Table.from_pandas(df, preserve_index=False), p,
                           row_group_size=int(rng.integers(1, len(df) + 2)))
        else:
            p = Path(d) / f"in{j}.csv"
            df.to_csv(p, sep="\t", index=False, **({"float_format": "%.17g"} if short_numbers else {}))
        paths.append(p)
    return paths


def judge_rows(res, rows, frames, ascending, where, extra):
    """rows: list of dicts as produced by the merge."""
    exp = pd.concat(frames, ignore_index=True)
    got = pd.DataFrame(rows) if rows else pd.DataFrame(columns=exp.columns)
    if len(got) != len(exp):
        res.violate("row_count", where, got=len(got), expected=len(exp), **extra)
        return
    ids = got["id"].astype(int).tolist()
    if sorted(ids) != exp["id"].tolist():
        dup = sorted({i for i in ids if ids.count(i) > 1})[:5]
        res.violate("not_a_permutation", where, duplicated=dup,
                    missing=sorted(set(exp["id"]) - set(ids))[:5], **extra)
        return
    s = got["score"].astype(float).values
    d = np.diff(s)
    if (d < 0).any() if ascending else (d > 0).any():
        i = int(np.flatnonzero(d < 0 if ascending else d > 0)[0])
        res.violate("not_sorted", where, at=i, scores=s[max(0, i - 2):i + 3].tolist(), **extra)
        return
    e = exp.set_index("id").loc[ids]
    for col in ("score", "txt", "val"):
        a = got[col].tolist()
        b = e[col].tolist()
        if col == "score":
            same = np.array_equal(np.asarray(a, dtype=float), np.asarray(b, dtype=float))
        else:
            same = [str(x) for x in a] == [str(x) for x in b]
        if not same:
            res.violate("row_changed", f"{where}:{col}", **extra)
            return


def plan(seed, tier):
    n = 32 if tier == "quick" else 640
    cases = [{"class": "merge_sort", "index": i, "reps": 25, "cost": 2} for i in range(n)]
    cases += [{"class": "table_merger", "index": i, "reps": 12, "cost": 3} for i in range(n)]
    cases += [{"class": "unsorted", "index": i, "reps": 25, "cost": 1} for i in range(n // 2)]
    return cases


MANDATORY_CLASSES = ["merge_sort", "table_merger", "unsorted"]


def _nontrivial(frames):
    if len(frames) < 2:
        return False
    seen = {}
    for j, f in enumerate(frames):
        for v in set(f["score"].tolist()):
            seen.setdefault(v, set()).add(j)
    return any(len(v) > 1 for v in seen.values())


def run_merge_sort(case):
    utils = core.mk("mokapot.utils")
    rng = core.seed_seq(case["seed"], "C14", "ms", case["index"])
    res = Result(case)
    nt = evals = 0
    for rep in range(case["reps"]):
        frames, tie = gen_inputs(rng)
        fmt = "parquet" if rep % 2 else "csv"
        total = sum(len(f) for f in frames)
        outs = {}
        # the column to merge on is the caller's choice; a third of the inputs use another name, half of those also
        # carry an unrelated (unsorted) column that happens to be called "score"
        sc = str(rng.choice(["score", "score", "svm_score", "q"]))
        distract = bool(sc != "score" and rng.random() < 0.5)
        files = []
        for f in frames:
            g = f.rename(columns={"score": sc})
            if distract:
                g["score"] = rng.permutation(len(g)).astype(float)
            files.append(g)

        def norm(df):
            df = df.drop(columns=["score"]) if distract else df
            return df.rename(columns={sc: "score"})

        with core.scratch("c14") as d:
            paths = write_inputs(files, d, fmt, rng)
            # expected values after the library's own round trip
            back = [norm(pd.read_parquet(p) if fmt == "parquet" else pd.read_csv(p, sep="\t")) for p in paths]
            sizes = sorted({1, 2, int(rng.integers(1, total + 2)), total + 1})
            abandoned = []  # merges started earlier in this process and left partly consumed (a caller that takes the top rows)
            for ci, cs in enumerate(sizes):
                with core.chunk_sizes(MERGE_SORT_CHUNK_SIZE=cs):
                    history = ["none", "abandoned", "lockstep"][(ci + rep) % 3] if total >= 2 else "none"
                    if history == "abandoned":
                        def _start(k=int(rng.integers(1, total))):
                            g = utils.merge_sort(paths, score_column=sc)
                            abandoned.append((g, list(itertools.islice(g, k))))
                        core.Call(_start)
                        res.count("merges_after_abandoned_merge")
                    if history == "lockstep":
                        def _lock():
                            g1 = utils.merge_sort(paths, score_column=sc)
                            g2 = utils.merge_sort(paths[::-1], score_column=sc)
                            o1, o2 = [], []
                            for a_, b_ in itertools.zip_longest(g1, g2):
                                if a_ is not None:
                                    o1.append(a_)
                                if b_ is not None:
                                    o2.append(b_)
                            return o1, o2
                        c = core.Call(_lock)
                        res.count("lockstep_merges")
                        if c.ok:
                            rows2 = norm(pd.DataFrame(c.value[1])).to_dict("records") if c.value[1] else []
                            judge_rows(res, rows2, back, False, "merge_sort/lockstep_second",
                                       dict(fmt=fmt, tie=tie, k=len(frames), lens=[len(f) for f in frames], chunk=cs, history=history))
                            c.value = c.value[0]
                    elif cs % 2:
                        c = core.Call(lambda: list(utils.merge_sort(paths, score_column=sc)))
                    else:
                        c = core.Call(lambda: list(utils.merge_sort(paths, sc)))
                evals += 1
                extra = dict(fmt=fmt, tie=tie, k=len(frames), lens=[len(f) for f in frames], chunk=cs, score_column=sc, distractor=distract,
                             history=history)
                if not c.ok:
                    res.violate("crash", c.sig, msg=c.info["msg"], **extra)
                    continue
                rows = norm(pd.DataFrame(c.value)).to_dict("records") if c.value else []
                judge_rows(res, rows, back, False, "merge_sort", extra)
                outs[cs] = [int(r["id"]) for r in c.value]
            # chunk-size independence as multisets per tie group == already implied by the judge;
            # additionally the id order for tie-free input must be identical
            if tie == "none" and len({tuple(v) for v in outs.values()}) > 1:
                res.violate("chunk_dependent", "merge_sort", fmt=fmt, sizes=list(outs))
        if _nontrivial(frames):
            nt += 1
        if rep == 0:
            res["sample"] = {"k": len(frames), "lens": [len(f) for f in frames], "tie": tie, "fmt": fmt}
    res["evals"] = evals
    res["distinct_n"] = nt
    res["nontrivial"] = nt > 0
    return res


def _readers(frames, paths, kind):
    td = core.mk("mokapot.tabular_data")
    if kind == "df":
        return [td.DataFrameReader(f) for f in frames]
    return [td.TabularDataReader.from_path(p) for p in paths]


def _rows_from(obj, mode):
    """Normalise whatever a merged reader hands out to a list of dicts."""
    rows = []
    for r in obj:
        if isinstance(r, pd.DataFrame):
            rows.extend(r.to_dict(orient="records"))
        elif isinstance(r, dict):
            rows.append(r)
        else:  # numpy record
            rows.append({n: r[n] for n in r.dtype.names})
    return rows


def run_table_merger(case):
    st = core.mk("mokapot.streaming")
    td = core.mk("mokapot.tabular_data")
    rng = core.seed_seq(case["seed"], "C14", "tm", case["index"])
    res = Result(case)
    nt = evals = 0
    for rep in range(case["reps"]):
        ascending = bool(rep % 3 == 0)
        frames, tie = gen_inputs(rng, ascending=ascending, kmax=6, nmax=60)
        src = ["df", "csv", "parquet"][rep % 3]
        total = sum(len(f) for f in frames)
        # priority column chosen by the caller; sometimes with an unrelated column called "score" beside it
        sc = str(rng.choice(["score", "score", "svm_score", "q"]))
        distract = bool(sc != "score" and rng.random() < 0.5)
        orig_frames = frames
        frames = []
        for f in orig_frames:
            g = f.rename(columns={"score": sc})
            if distract:
                g["score"] = rng.permutation(len(g)).astype(float)
            frames.append(g)

        def norm(df):
            df = df.drop(columns=["score"]) if distract else df
            return df.rename(columns={sc: "score"})

        with core.scratch("c14") as d:
            paths = write_inputs(frames, d, "parquet" if src == "parquet" else "csv", rng) if src != "df" else None
            back = [norm(f) for f in frames] if src == "df" else [
                norm(pd.read_parquet(p) if src == "parquet" else pd.read_csv(p, sep="\t")) for p in paths]
            for rcs in sorted({1, int(rng.integers(1, total + 2)), total + 1}):
                extra = dict(src=src, tie=tie, ascending=ascending, k=len(frames), lens=[len(f) for f in frames],
                             reader_chunk=rcs, priority_column=sc, distractor=distract)
                for api in ("rows_df", "rows_dicts", "rows_records", "read", "chunked", "merge_readers"):
                    def go():
                        rd = _readers(frames, paths, src)
                        if api == "merge_readers":
                            return _rows_from(st.merge_readers(rd, sc, descending=not ascending,
                                                               reader_chunk_size=rcs), api)
                        m = st.MergedTabularDataReader(rd, sc, descending=not ascending,
                                                       reader_chunk_size=rcs)
                        if api == "rows_df":
                            return _rows_from(m.get_row_iterator(row_type=td.TableType.DataFrame), api)
                        if api == "rows_dicts":
                            return _rows_from(m.get_row_iterator(row_type=td.TableType.Dicts), api)
                        if api == "rows_records":
                            return _rows_from(m.get_row_iterator(row_type=td.TableType.Records), api)
                        if api == "read":
                            return m.read().to_dict(orient="records")
                        cs = int(rng.integers(1, total + 2))
                        chunks = list(m.get_chunked_data_iterator(chunk_size=cs))
                        if any(len(c) > cs for c in chunks) or any(len(c) != cs for c in chunks[:-1]):
                            raise AssertionError("VF:chunk sizes %s for chunk_size %d" % ([len(c) for c in chunks], cs))
                        return _rows_from(chunks, api)
                    c = core.Call(go)
                    evals += 1
                    if not c.ok:
                        if "Column types do not match" in str(c.info.get("msg", "")):
                            # the merger compares the column types it infers from the heads of the text files and
                            # refuses inputs that look differently typed (type inference of text is C13's business)
                            res.count("refused_inferred_types_differ")
                            continue
                        if "VF:chunk sizes" in str(c.exc):
                            res.violate("chunk_shape", api, msg=str(c.exc), **extra)
                        else:
                            res.violate("crash", c.sig + "/" + api, msg=c.info["msg"], **extra)
                        continue
                    rows = norm(pd.DataFrame(c.value)).to_dict("records") if c.value else []
                    judge_rows(res, rows, back, ascending, api, extra)
        if _nontrivial(orig_frames):
            nt += 1
    res["evals"] = evals
    res["distinct_n"] = nt
    res["nontrivial"] = nt > 0
    return res


def run_unsorted(case):
    st = core.mk("mokapot.streaming")
    td = core.mk("mokapot.tabular_data")
    rng = core.seed_seq(case["seed"], "C14", "uns", case["index"])
    res = Result(case)
    nt = evals = 0
    for rep in range(case["reps"]):
        ascending = bool(rep % 2)
        frames, tie = gen_inputs(rng, ascending=ascending, kmax=5, nmax=40)
        # plant exactly one strict inversion in one input with >= 2 rows
        cand = [j for j, f in enumerate(frames) if len(f) >= 2]
        if not cand:
            frames.append(pd.DataFrame({"id": [10**6, 10**6 + 1], "score": [1.0, 0.0] if not ascending else [0.0, 1.0],
                                        "txt": ["x", "y"], "val": [0, 0]}))
            cand = [len(frames) - 1]
        j = int(rng.choice(cand))
        f = frames[j].copy()
        n = len(f)
        rcs = int(rng.integers(1, n + 2))
        where = rng.choice(["first", "middle", "last", "boundary"])
        if where == "first":
            i = 1
        elif where == "last":
            i = n - 1
        elif where == "boundary":
            i = min(n - 1, max(1, rcs))
        else:
            i = max(1, n // 2)
        s = f["score"].values.copy()
        s[i] = s[i - 1] + (-1.0 if ascending else 1.0) * float(rng.choice([1e-9, 0.5, 100.0]))
        f["score"] = s
        frames[j] = f
        evals += 1

        def go():
            rd = [td.DataFrameReader(x) for x in frames]
            m = st.MergedTabularDataReader(rd, "score", descending=not ascending, reader_chunk_size=rcs)
            return m.read()
        c = core.Call(go)
        if c.ok:
            out = c.value["score"].values
            res.violate("unsorted_accepted", str(where), ascending=ascending, input=j, row=i, reader_chunk=rcs,
                        scores=s.tolist()[:20], output_sorted=bool((np.diff(out) >= 0).all() if ascending else (np.diff(out) <= 0).all()))
        nt += 1
    res["evals"] = evals
    res["distinct_n"] = nt
    res["nontrivial"] = nt > 0
    return res


def run_case(case):
    return {"merge_sort": run_merge_sort, "table_merger": run_table_merger, "unsorted": run_unsorted}[case["class"]](case)
