"""C10 - every well-formed PIN / Parquet PSM table parses into a faithful dataset.

Differential monitor on read_pin: tables are generated from a structure the harness
keeps (column roles, casing, order, NaN placement, label encoding); the returned
OnDiskPsmDataset is compared field by field with that structure. Ill-formed tables
(missing required column, label out of range) must be rejected.
"""
from __future__ import annotations

import numpy as np
import pandas as pd

from vf import core
from vf.core import Result

LEVEL = "exploration"
RULE = (
    "tables: 1..60 feature columns (every residue modulo the column-scan chunk size, chunk sizes 2..25 and the "
    "default 19), shuffled column order, random letter case of the reserved names, every subset of the optional "
    "filename/calcmass/expmass/ret_time columns, rollup-level columns, label encodings 1/-1, 1/0, bool, NaN in "
    "0..3 feature columns (float and integer typed) at first/middle/last row (first/last feature chunk), row-scan chunk sizes {1,2,n,n+1}, "
    "workers {1,2,4,8}, text and Parquet; reject: a required column removed or a label of 2/-2. Non-trivial = "
    ">=2 features and (a NaN column or >=1 optional column or non-default casing); distinct = distinct "
    "(n_features, identifier count, column-chunk size, NaN placement, format, casing) signature."
    " A third of the reads name some of the present optional columns explicitly (filename/calcmass/expmass/rt keyword arguments) and give the path as str / Path / list / tuple."
)
ASSUMPTIONS = [
    "membership of charge* columns in the feature list is not judged (the code's charge handling is conditional and the statement does not pin it)",
    "feature names never collide with reserved names (case-insensitively)",
    "column-scan chunk sizes smaller than the number of identifier columns are not generated",
]
RESERVED = ["SpecId", "Label", "ScanNr", "Peptide", "Proteins"]
OPTIONAL = ["filename", "calcmass", "expmass", "ret_time"]
LEVELS = ["ModifiedPeptide", "Precursor", "PeptideGroup"]


def _case(rng, name, style):
    if style == "default":
        return name
    if style == "lower":
        return name.lower()
    if style == "upper":
        return name.upper()
    return "".join(c.upper() if rng.integers(0, 2) else c.lower() for c in name)


def gen_table(rng, nfeat=None):
    n = int(rng.choice([4, 7, 30, 120]))
    nfeat = int(rng.integers(1, 61)) if nfeat is None else nfeat
    style = str(rng.choice(["default", "lower", "upper", "random"], p=[.4, .2, .2, .2]))
    names = {r: _case(rng, r, style) for r in RESERVED}
    opt = [o for o in OPTIONAL if rng.random() < 0.45]
    optnames = {o: _case(rng, {"filename": "filename", "calcmass": "CalcMass", "expmass": "ExpMass", "ret_time": "ret_time"}[o], style) for o in opt}
    lev = [l for l in LEVELS if rng.random() < 0.25]
    levnames = {l: _case(rng, l, style) for l in lev}
    charge = bool(rng.random() < 0.2)
    enc = str(rng.choice(["pm1", "01", "bool"]))
    is_t = rng.random(n) < 0.5
    is_t[0], is_t[1] = True, False
    cols = {}
    cols[names["SpecId"]] = [f"id_{i}" for i in range(n)]
    cols[names["Label"]] = {"pm1": np.where(is_t, 1, -1), "01": is_t.astype(int), "bool": is_t}[enc]
    cols[names["ScanNr"]] = rng.integers(1, 10**5, size=n)
    cols[names["Peptide"]] = ["PEPTIDE%dK" % i for i in range(n)]
    cols[names["Proteins"]] = ["prot_%d" % (i % 7) for i in range(n)]
    if "filename" in opt:
        cols[optnames["filename"]] = [f"run{i % 2}.mzML" for i in range(n)]
    if "calcmass" in opt:
        cols[optnames["calcmass"]] = np.round(rng.random(n) * 2000 + 300, 4)
    if "expmass" in opt:
        cols[optnames["expmass"]] = np.round(rng.random(n) * 2000 + 300, 4)
    if "ret_time" in opt:
        cols[optnames["ret_time"]] = np.round(rng.random(n) * 6000, 2)
    for l in lev:
        cols[levnames[l]] = ["%s_%d" % (l[:3], i % 5) for i in range(n)]
    if charge:
        cols["Charge2"] = rng.integers(0, 2, size=n)
        cols["Charge3"] = 1 - cols["Charge2"]
    feats = []
    for j in range(nfeat):
        nm = f"Feat_{j:02d}_x"
        feats.append(nm)
        if j % 3:
            cols[nm] = np.round(rng.normal(size=n), 5)
        elif j % 2:
            cols[nm] = rng.integers(0, 50, size=n).astype(float)
        else:
            # a genuinely integer-typed column (nullable): text shows "12", a missing value is an empty field /
            # a Parquet null, and a two-row peek at the file sees an integer column
            cols[nm] = pd.array(rng.integers(0, 50, size=n), dtype="Int64")
    order = list(cols)
    if rng.random() < 0.7:
        order = [str(c) for c in rng.permutation(order)]
    df = pd.DataFrame({c: cols[c] for c in order})
    # NaN placement
    n_nan = int(rng.choice([0, 0, 1, 2, 3]))
    n_nan = min(n_nan, nfeat)
    feat_in_file_order = [c for c in order if c in feats]
    nan_cols = []
    if n_nan:
        where = str(rng.choice(["first_chunk", "last_chunk", "any"]))
        if where == "first_chunk":
            pool = feat_in_file_order[: max(1, min(3, nfeat))]
        elif where == "last_chunk":
            pool = feat_in_file_order[-max(1, min(3, nfeat)):]
        else:
            pool = feat_in_file_order
        nan_cols = [str(c) for c in rng.choice(pool, size=min(n_nan, len(pool)), replace=False)]
        for c in nan_cols:
            row = {"first": 0, "middle": n // 2, "last": n - 1}[str(rng.choice(["first", "middle", "last"]))]
            df.loc[row, c] = pd.NA if str(df[c].dtype) == "Int64" else np.nan
    exp_features = [c for c in feat_in_file_order if c not in nan_cols]
    exp_spectra = []
    for role in ("filename", "ScanNr", "ret_time", "expmass"):
        if role == "ScanNr":
            exp_spectra.append(names["ScanNr"])
        elif role in opt:
            exp_spectra.append(optnames[role])
    meta = dict(n=n, nfeat=nfeat, style=style, optional=opt, levels=lev, charge=charge, enc=enc, nan_cols=nan_cols,
                n_ident=len(exp_spectra) + 1)
    exp = dict(features=exp_features, spectra=exp_spectra, label=names["Label"], targets=is_t.tolist(),
               levels=[names["Peptide"]] + [levnames[l] for l in LEVELS if l in lev],
               specid=names["SpecId"], peptide=names["Peptide"], proteins=names["Proteins"], scan=names["ScanNr"],
               optional={o: optnames[o] for o in opt})
    return df, exp, meta


BOM_COUNT = [0, 0]


def write(df, d, fmt, rng, tag=""):
    if fmt == "parquet":
        import pyarrow as pa
        import pyarrow.parquet as pq

        p = d / f"t{tag}.parquet"
        pq.write_table(pa.Table.from_pandas(df, preserve_index=False), p, row_group_size=int(rng.integers(1, len(df) + 2)))
    else:
        p = d / f"t{tag}.pin"
        text = df.to_csv(sep="\t", index=False)
        import zlib

        h = zlib.crc32(text.encode())
        if h % 5 == 0:
            # a table saved by a spreadsheet program: UTF-8 byte-order mark in front of the header
            p.write_bytes(b"\xef\xbb\xbf" + text.encode())
            BOM_COUNT[0] += 1
        elif h % 5 == 1:
            p.write_bytes(text.replace("\n", "\r\n").encode())   # CRLF line endings
            BOM_COUNT[1] += 1
        else:
            p.write_text(text)
    return p


def plan(seed, tier):
    cases = []
    # systematic: every feature count 1..60 at the default column chunk size, both formats
    per = 6
    for lo in range(1, 61, per):
        cases.append({"class": "nfeat_sweep", "lo": lo, "hi": min(60, lo + per - 1), "cost": 6})
    n = 24 if tier == "quick" else 2000
    cases += [{"class": "random", "index": i, "reps": 12, "cost": 4} for i in range(n)]
    cases += [{"class": "reject", "index": i, "reps": 12, "cost": 2} for i in range(max(4, n // 6))]
    return cases


MANDATORY_CLASSES = ["nfeat_sweep", "random", "reject"]


def judge(res, ds, df, exp, meta, extra):
    ok = True

    def bad(kind, **kw):
        nonlocal ok
        ok = False
        res.violate(kind, f"nfeat={meta['nfeat']},ident={meta['n_ident']}", meta=meta, **kw, **extra)

    drop_charge = lambda xs: [x for x in xs if not x.lower().startswith("charge")]  # noqa: E731
    got_feats = drop_charge(list(ds.feature_columns))
    if got_feats != drop_charge(exp["features"]):
        bad("feature_columns", got=got_feats[:12], expected=exp["features"][:12],
            missing=[f for f in exp["features"] if f not in got_feats][:5],
            extra_cols=[f for f in got_feats if f not in exp["features"]][:5])
    if list(ds.spectrum_columns) != exp["spectra"]:
        bad("spectrum_columns", got=list(ds.spectrum_columns), expected=exp["spectra"])
    sd = ds.spectra_dataframe
    if len(sd) != meta["n"]:
        bad("row_count", got=len(sd), expected=meta["n"])
    else:
        lab = sd[exp["label"]] if exp["label"] in sd.columns else None
        if lab is None:
            bad("label_column_missing", columns=list(sd.columns))
        else:
            if lab.dtype != bool or lab.tolist() != exp["targets"]:
                bad("targets", got=lab.tolist()[:12], expected=exp["targets"][:12], dtype=str(lab.dtype))
        for c in exp["spectra"]:
            if c not in sd.columns:
                bad("spectrum_key_missing", column=c, columns=list(sd.columns))
            else:
                a, b = sd[c].tolist(), df[c].tolist()
                if [str(x) for x in a] != [str(x) for x in b] and not np.allclose(
                        pd.to_numeric(pd.Series(a), errors="coerce"), pd.to_numeric(pd.Series(b), errors="coerce"), rtol=0, atol=0, equal_nan=True):
                    bad("spectrum_key_values", column=c, got=a[:6], expected=b[:6])
    for attr, key in (("target_column", "label"), ("peptide_column", "peptide"), ("protein_column", "proteins"),
                      ("specId_column", "specid"), ("scan_column", "scan")):
        if getattr(ds, attr, None) != exp[key]:
            bad("role_" + attr, got=getattr(ds, attr, None), expected=exp[key])
    for role, attr in (("filename", "filename_column"), ("calcmass", "calcmass_column"), ("expmass", "expmass_column"),
                       ("ret_time", "rt_column")):
        want = exp["optional"].get(role)
        if getattr(ds, attr, None) != want:
            bad("role_" + attr, got=getattr(ds, attr, None), expected=want)
    if list(ds.level_columns) != exp["levels"]:
        bad("level_columns", got=list(ds.level_columns), expected=exp["levels"])
    md = list(ds.metadata_columns)
    for need in (exp["specid"], exp["label"], exp["scan"], exp["peptide"], exp["proteins"]):
        if need not in md:
            bad("metadata_columns", missing=need, got=md)
    if any(f in md for f in exp["features"]):
        bad("metadata_columns", feature_listed_as_metadata=[f for f in exp["features"] if f in md][:4])
    if list(ds.columns) != list(df.columns):
        bad("columns", got=list(ds.columns)[:10], expected=list(df.columns)[:10])
    return ok


def _read(path, workers, explicit=None, form="list"):
    """explicit: {keyword: column name} handed to read_pin for optional columns that are present (the same columns its
    auto-detection finds); form: how the path is given (list of str / str / pathlib.Path / tuple)."""
    from pathlib import Path

    arg = {"list": [str(path)], "str": str(path), "path": Path(path), "tuple": (Path(path),)}[form]
    return core.import_mokapot().read_pin(arg, max_workers=workers, **(explicit or {}))[0]


def _one(res, rng, d, df, exp, meta, fmt, colchunk, rowchunk, workers, tag):
    p = write(df, d, fmt, rng, tag)
    sizes = {}
    if colchunk:
        sizes["CHUNK_SIZE_COLUMNS_FOR_DROP_COLUMNS"] = colchunk
    if rowchunk:
        sizes["CHUNK_SIZE_ROWS_FOR_DROP_COLUMNS"] = rowchunk
    import contextlib
    from vf.instruments import scheduler

    sched = scheduler.perturb(int(rng.integers(1 << 30)), max_sleep=0.002) if workers > 1 else contextlib.nullcontext()
    # a third of the reads name some of the present optional columns explicitly and / or pass the path in another form
    explicit, form = None, "list"
    if rng.random() < 0.35:
        kw = {"filename": "filename_column", "calcmass": "calcmass_column", "expmass": "expmass_column", "ret_time": "rt_column"}
        present = sorted(exp["optional"])
        if present:
            chosen = [o for o in present if rng.random() < 0.6] or present[:1]
            explicit = {kw[o]: exp["optional"][o] for o in chosen}
        form = str(rng.choice(["list", "str", "path", "tuple"]))
        res.count("reads_with_explicit_columns_or_other_path_form")
    with core.chunk_sizes(**sizes), sched as trace:
        c = core.Call(_read, p, workers, explicit, form)
    if trace is not None:
        res.count("multiworker_reads")
        res.count("task_kinds_finished_out_of_order", trace.out_of_order())
        res.count("threads_seen", trace.threads())
    extra = dict(fmt=fmt, col_chunk=colchunk or 19, row_chunk=rowchunk, workers=workers, explicit=explicit, path_form=form)
    if not c.ok:
        res.violate("crash", c.sig, msg=c.info["msg"], meta=meta, **extra)
        return False
    return judge(res, c.value, df, exp, meta, extra)


def run_sweep(case):
    rng = core.seed_seq(case["seed"], "C10", "sweep", case["lo"])
    res = Result(case, key=f"sweep/{case['lo']}")
    evals = 0
    sigs = set()
    with core.scratch("c10") as d:
        for nfeat in range(case["lo"], case["hi"] + 1):
            for rep in range(4):
                df, exp, meta = gen_table(rng, nfeat=nfeat)
                fmt = "parquet" if rep % 2 else "pin"
                _one(res, rng, d, df, exp, meta, fmt, None, None, 1, f"{nfeat}_{rep}")
                evals += 1
                sigs.add((nfeat, meta["n_ident"], fmt))
    res["evals"] = evals
    if BOM_COUNT[0] or BOM_COUNT[1]:
        res.count("text_inputs_with_bom", BOM_COUNT[0])
        res.count("text_inputs_with_crlf", BOM_COUNT[1])
        BOM_COUNT[0] = BOM_COUNT[1] = 0
    res["distinct_n"] = len(sigs)
    res["nontrivial"] = True
    return res


def run_random(case):
    rng = core.seed_seq(case["seed"], "C10", "random", case["index"])
    res = Result(case)
    evals = 0
    sigs = set()
    with core.scratch("c10") as d:
        for rep in range(case["reps"]):
            df, exp, meta = gen_table(rng)
            fmt = "parquet" if rng.random() < 0.4 else "pin"
            colchunk = int(rng.integers(max(2, meta["n_ident"]), 26)) if rng.random() < 0.7 else None
            n = meta["n"]
            rowchunk = int(rng.choice([1, 2, n, n + 1])) if rng.random() < 0.7 else None
            workers = int(rng.choice([1, 2, 4, 8]))
            # every second table overwrites the previous file at the same path (same process, new content)
            _one(res, rng, d, df, exp, meta, fmt, colchunk, rowchunk, workers, "same" if rep % 2 else str(rep))
            evals += 1
            if meta["nfeat"] >= 2 and (meta["nan_cols"] or meta["optional"] or meta["style"] != "default"):
                sigs.add((meta["nfeat"], meta["n_ident"], colchunk, tuple(meta["nan_cols"]), fmt, meta["style"]))
            if rep == 0:
                res["sample"] = dict(meta, columns=list(df.columns)[:12], fmt=fmt, col_chunk=colchunk, row_chunk=rowchunk, workers=workers)
    res["evals"] = evals
    if BOM_COUNT[0] or BOM_COUNT[1]:
        res.count("text_inputs_with_bom", BOM_COUNT[0])
        res.count("text_inputs_with_crlf", BOM_COUNT[1])
        BOM_COUNT[0] = BOM_COUNT[1] = 0
    res["distinct_n"] = len(sigs)
    res["nontrivial"] = len(sigs) > 0
    return res


def run_reject(case):
    rng = core.seed_seq(case["seed"], "C10", "reject", case["index"])
    res = Result(case)
    evals = 0
    types = {}
    with core.scratch("c10r") as d:
        for rep in range(case["reps"]):
            df, exp, meta = gen_table(rng, nfeat=int(rng.integers(1, 25)))
            fmt = "parquet" if rep % 2 else "pin"
            if rep % 3 == 2:
                kind = "bad_label"
                lab = exp["label"]
                vals = df[lab].astype(int).values.copy() if df[lab].dtype != bool else np.where(df[lab].values, 1, -1)
                vals[int(rng.integers(0, len(vals)))] = int(rng.choice([2, -2, 3]))
                df[lab] = vals
            else:
                role = str(rng.choice(["specid", "label", "scan", "peptide", "proteins"]))
                kind = "missing_" + role
                df = df.drop(columns=[exp[role]])
            p = write(df, d, fmt, rng, str(rep))
            c = core.Call(_read, p, 1)
            evals += 1
            if c.ok:
                res.violate("accepted_" + kind, fmt, meta=meta, columns=list(df.columns)[:12])
            else:
                types[kind] = c.info["type"]
                if c.info["type"] != "ValueError":
                    res.count("rejections_with_other_exception_type")
    res["evals"] = evals
    if BOM_COUNT[0] or BOM_COUNT[1]:
        res.count("text_inputs_with_bom", BOM_COUNT[0])
        res.count("text_inputs_with_crlf", BOM_COUNT[1])
        BOM_COUNT[0] = BOM_COUNT[1] = 0
    res["distinct_n"] = evals
    res["nontrivial"] = True
    res["sample"] = {"rejection_exception_types": types}
    return res


def run_case(case):
    return {"nfeat_sweep": run_sweep, "random": run_random, "reject": run_reject}[case["class"]](case)
