"""C02 - cross-validation integrity: no PSM is scored by a model that saw its spectrum.

History + executable model: a recording estimator passed through the public Model
API logs every fit / scoring call with unique row ids; the log of each brew() call is
replayed against a sequential model of k-fold CV (vf.oracles.cv).
"""
from __future__ import annotations

import numpy as np

from vf import core
from vf.core import Result
from vf.gens import psm
from vf.instruments import pipeline
from vf.oracles import cv

LEVEL = "exploration"
RULE = (
    "brew() on generated tables: folds 2..6 x 1..3 jointly modelled files x spectrum key of 1..4 columns x "
    "subset_max_train {None, small, ~half, > data} x max_workers {1,2,3,8} with seeded delays inside fit/score x "
    "learners {linear, svc (decision_function); knn, tree, onetree (predict_proba only)} x text/Parquet x prediction / "
    "training-read chunk sizes {default, n-1, n/2+1, n/3, 7, n/5}; in half of the tables 50..80% of the spectra share file, scan and retention time with a neighbour and differ only in the last key column (charge hypotheses). Judged "
    "from the estimator log: model count, every row scored exactly once, spectrum-closed folds, training rows "
    "disjoint from (and sharing no spectrum with) the rows the same model later scored, cap respected, returned "
    "score = (affine image of) the recorded output of the row's fold model. Non-trivial = spectra with "
    "multiplicity >= 2 and (>= 2 key columns or >= 2 files) and the run produced final scores; distinct = case parameters."
    " split: OnDiskPsmDataset._split driven directly on small and skewed tables (one spectrum holding up to half of the PSMs, folds 2..7, as few spectra as folds): a returned split is a partition into the requested number of folds and spectrum-closed; a refused table is counted."
)
ASSUMPTIONS = [
    "judged domain: >= 20 spectra per fold; skewed tables are out-of-domain probes",
    "'any estimator' is sampled by five learner kinds",
    "ensemble mode is excluded by the statement",
]
CASE_TIMEOUT = 600
KEYSETS = [(), ("ExpMass",), ("filename",), ("ret_time",), ("ret_time", "ExpMass"), ("filename", "ExpMass"),
           ("filename", "ret_time", "ExpMass")]
LEARNERS = ["linear", "knn:proba", "tree:proba", "svc", "onetree:proba", "knn:proba1"]


def plan(seed, tier):
    n = 64 if tier == "quick" else 3000
    cases = []
    rng = core.seed_seq(seed, "C02", "plan")
    for i in range(n):
        folds = int(2 + i % 5)
        nfiles = int([1, 1, 2, 3][i % 4])
        cases.append({
            "class": "brew", "index": i, "folds": folds, "nfiles": nfiles,
            "keys": list(KEYSETS[i % len(KEYSETS)]),
            "learner": LEARNERS[(i // 2) % len(LEARNERS)],
            "workers": int([1, 2, 3, 8][(i // 3) % 4]),
            "cap": [None, "small", "half", "large"][(i // 5) % 4],
            "fmt": "parquet" if i % 3 == 2 else "pin",
            "big": bool(tier == "thorough" and i % 40 == 7),
            "cost": 3,
        })
    # the fold split itself, driven directly on many small and skewed tables (one spectrum holding a large share of the
    # PSMs, few spectra, more folds than usual): a split that is returned must be spectrum-closed
    for i in range(8 if tier == "quick" else 200):
        cases.append({"class": "split", "index": i, "reps": 60, "cost": 3})
    return cases


MANDATORY_CLASSES = ["brew", "split"]


def build(case, rng, d):
    tabs, paths = [], []
    nsp = int(rng.integers(40, 90)) * case["folds"] if not case.get("big") else 4000
    # runs of different spectra that agree in every key column but the last (charge hypotheses of one scan)
    share = float(rng.choice([0.0, 0.0, 0.5, 0.8]))
    for fi in range(case["nfiles"]):
        tab = psm.psm_table(rng, n_spectra=nsp, mult_max=int(rng.integers(2, 5)), n_files=2 if "filename" in case["keys"] else 1,
                            key_cols=tuple(case["keys"]) , file_index=fi, label_enc="01", ties=bool(case["index"] % 7 == 3),
                            share_scan=share)
        tabs.append(tab)
        if case["fmt"] == "parquet":
            paths.append(psm.write_parquet(tab, d / f"f{fi}.parquet", row_group_size=int(rng.integers(5, 400))))
        else:
            paths.append(psm.write_pin(tab, d / f"f{fi}.pin"))
    return tabs, paths


def check_scores(res, out, tabs, log, extra):
    """returned score of each row = (affine image of) recorded output of its fold's model."""
    fin = cv.final_outputs(log)
    if not fin:
        return
    for fi, tab in enumerate(tabs):
        sc = np.asarray(out["scores"][fi], dtype=float)
        if sc.ndim != 1 or len(sc) != len(tab["df"]):
            # fallback to best feature returns (n,1): not the model's scores, nothing to compare
            res.count("fallback_runs")
            return
        rids = tab["df"]["rid"].tolist()
        if any(np.array_equal(sc, tab["df"][f].values.astype(float)) for f in tab["features"]):
            res.count("fallback_runs")
            return
        by_uid = {}
        for pos, r in enumerate(rids):
            if r in fin:
                u, raw = fin[r]
                by_uid.setdefault(u, []).append((raw, sc[pos]))
        for u, pairs in by_uid.items():
            raw = np.array([p[0] for p in pairs])
            ret = np.array([p[1] for p in pairs])
            if ":proba" in extra["learner"]:
                if not np.array_equal(raw, ret):
                    res.violate("score_not_model_output", "proba", uid=u, n=len(raw), example=[raw[:3].tolist(), ret[:3].tolist()], **extra)
                    return
            elif np.ptp(raw) > 0:
                A = np.column_stack([raw, np.ones_like(raw)])
                coef, *_ = np.linalg.lstsq(A, ret, rcond=None)
                fit = A @ coef
                if coef[0] <= 0 or not np.allclose(fit, ret, rtol=1e-7, atol=1e-7 * (1 + np.abs(ret).max())):
                    res.violate("score_not_model_output", "affine", uid=u, slope=float(coef[0]),
                                max_residual=float(np.abs(fit - ret).max()), **extra)
                    return
        res.count("score_rows_compared", sum(len(v) for v in by_uid.values()))


def run_split(case):
    rng = core.seed_seq(case["seed"], "C02", "split", case["index"])
    res = Result(case)
    evals = nt = 0
    with core.scratch("c02s") as d:
        for rep in range(case["reps"]):
            folds = int(rng.integers(2, 8))
            nsp = int(rng.choice([folds, folds + 1, 2 * folds, 12, 40, 150]))
            skew = bool(rng.random() < 0.6)
            keys = KEYSETS[int(rng.integers(0, len(KEYSETS)))]
            tab = psm.psm_table(rng, n_spectra=nsp, mult_max=int(rng.integers(1, 5)), n_files=2 if "filename" in keys else 1,
                                key_cols=tuple(keys), skew=skew, share_scan=float(rng.choice([0.0, 0.5])), n_noise=1)
            p = psm.write_pin(tab, d / f"s{rep}.pin")
            ds = pipeline.read_datasets([p])[0]
            c = core.Call(ds._split, folds, np.random.default_rng(int(rng.integers(1 << 30))))
            evals += 1
            extra = dict(folds=folds, n_spectra=nsp, skew=skew, keys=list(keys), rows=len(tab["df"]))
            if not c.ok:
                # a table the splitter cannot handle (a spectrum larger than a fold) is outside the judged domain when it
                # is refused; what may not happen is a split that is returned and is not spectrum-closed
                res.count("split_refused")
                res.count("split_refused:" + c.sig)
                continue
            parts = [np.asarray(x) for x in c.value]
            allidx = np.concatenate(parts) if parts else np.array([], dtype=int)
            if sorted(allidx.tolist()) != list(range(len(tab["df"]))):
                res.violate("split_not_a_partition", "", n_indices=len(allidx), distinct=len(set(allidx.tolist())), **extra)
                continue
            if len(parts) != folds:
                res.violate("split_fold_count", "", got=len(parts), **extra)
                continue
            spec = tab["truth"]["spec"].values
            fold_of = np.empty(len(spec), dtype=int)
            for fi, ix in enumerate(parts):
                fold_of[ix] = fi
            seen = {}
            bad = None
            for s_, f_ in zip(spec.tolist(), fold_of.tolist()):
                if seen.setdefault(s_, f_) != f_:
                    bad = s_
                    break
            if bad is not None:
                res.violate("spectrum_split_across_folds", "split", spectrum=int(bad),
                            sizes=[int((fold_of[spec == bad] == k).sum()) for k in range(folds)], **extra)
                continue
            res.count("splits_checked")
            if skew:
                nt += 1
    res["evals"] = evals
    res["distinct_n"] = nt
    res["nontrivial"] = nt > 0
    return res


def run_case(case):
    if case["class"] == "split":
        return run_split(case)
    rng = core.seed_seq(case["seed"], "C02", case["index"])
    res = Result(case)
    with core.scratch("c02") as d:
        tabs, paths = build(case, rng, d)
        total = sum(len(t["df"]) for t in tabs)
        cap = {None: None, "small": max(60, total // 6), "half": total // 2, "large": total * 2}[case["cap"]]
        # two thirds of the cases stream the prediction / training reads in several chunks (incl. sizes that leave a
        # short last chunk, in which some fold may be absent)
        nmin = min(len(t["df"]) for t in tabs)
        sizes = {}
        if case["index"] % 3:
            sizes["CHUNK_SIZE_ROWS_PREDICTION"] = int(rng.choice([nmin - 1, nmin // 2 + 1, nmin // 3, 7, max(2, nmin // 5)]))
        if case["index"] % 3 == 2:
            sizes["CHUNK_SIZE_READ_ALL_DATA"] = int(rng.choice([nmin - 1, nmin // 2 + 1, 11]))
        import contextlib
        from vf.instruments import scheduler

        sched = scheduler.perturb(int(rng.integers(1 << 30))) if case["workers"] > 1 else contextlib.nullcontext()
        with core.chunk_sizes(**sizes), sched as trace:
            out = pipeline.run_brew(paths, learner=case["learner"], folds=case["folds"], seed=int(rng.integers(1 << 30)),
                                    test_fdr=0.1, train_fdr=0.1, max_workers=case["workers"], subset_max_train=cap,
                                    max_iter=int(rng.integers(1, 4)), delay=0.004 if case["workers"] > 1 else 0.0,
                                    history=(case["seed"] + case["index"]) if case["index"] % 7 in (2, 5) else None)
        if out.get("history_prelude_completed"):
            res.count("runs_after_history_prelude")
        extra = dict(folds=case["folds"], nfiles=case["nfiles"], keys=case["keys"], learner=case["learner"],
                     workers=case["workers"], cap=cap, fmt=case["fmt"], rows=total, chunks=sizes)
        log = out.get("log", [])
        res.count("log_events", len(log))
        if out["status"].startswith("crash"):
            res.violate("crash", out["sig"], msg=out["error"]["msg"], **extra)
            return res
        if out["status"].startswith("refused"):
            res["status"] = "refused"
            res["note"] = out["error"]["msg"]
        model_uids = None
        if out["status"] == "ok":
            model_uids = [getattr(m.estimator, "uid_", None) for m in out["models"]]
            if len(out["models"]) != case["folds"]:
                res.violate("model_count", "returned", returned=len(out["models"]), **extra)
        bad, facts = cv.analyze(log, tabs, case["folds"], model_uids=model_uids, cap=cap,
                                check_model_count=(out["status"] == "ok"), complete=(out["status"] == "ok"))
        for kind, detail in bad[:4]:
            res.violate(kind, case["learner"].split(":")[0], detail=detail, **extra)
        res.count("fit_events", facts["n_fit_events"])
        res.count("final_score_events", facts["n_final_score_events"])
        res.count("scored_rows", facts["scored_rows"])
        threads = {e["thread"] for e in log}
        res.count("distinct_threads_seen", len(threads))
        if trace is not None:
            res.count("task_kinds_finished_out_of_order", trace.out_of_order())
        if out["status"] == "ok":
            check_scores(res, out, tabs, log, extra)
        multi = any((t["truth"]["spec"].value_counts() > 1).any() for t in tabs)
        res["nontrivial"] = bool(multi and (len(case["keys"]) >= 1 or case["nfiles"] >= 2) and facts["n_final_score_events"] > 0)
        res["sample"] = dict(extra, train_sizes=list(facts["train_sizes"].values()), status=out["status"])
    return res
