"""C12 - training feeds the estimator rows and labels of the same PSM, in any order.

History + model: Model.fit is driven directly with a recording estimator; every fit
event is replayed against the training-loop model (positives = targets accepted at
train_fdr under the scores the estimator itself returned in the previous iteration,
negatives = all decoys). Metamorphic monitors: row permutation, shuffle on/off,
feature-column permutation at prediction, save/load round trip.
"""
from __future__ import annotations

import numpy as np
import pandas as pd

from vf import core
from vf.core import Result
from vf.gens import psm
from vf.instruments import recorder

LEVEL = "exploration"
RULE = (
    "Model.fit on LinearPsmDatasets from generated tables x learners {linear, svc, knn(proba), tree(proba), "
    "knn(one-column proba)} x max_iter 1..10 x direction None/named x shuffle on/off x a row-permuted copy; each "
    "fit event judged against the replayed training loop; predictions compared across variants when all "
    "intermediate label sets agree; predict with permuted feature columns; save_model/load_model round trip; for every integer tunable "
    "found in mokapot.constants that is not one of the six known chunk constants: a refit under {1,2,3,7,n-1} must predict as the base model. "
    "Non-trivial = >= 2 iterations and both labels among the training rows and at least one iteration in which "
    "the positive set changed; distinct = case parameters."
    " predict() on the training PSMs must reproduce the estimator's own scores after its last fit, directly after training and after the trained model was refined by a second fit() on the same PSMs with the feature columns in another order."
    " Every fourth table starts training from a feature 1e9 + milli-units."
)
ASSUMPTIONS = [
    "accepted targets are computed with the real tdc on the recorded outputs (C01)",
    "which feature/direction starts training is read from the fitted model (its choice is C07's business)",
    "solver tolerance: rtol 1e-6 for the closed-form learner, 1e-4 for LinearSVC, compared only when label sets agree in every iteration",
]
CASE_TIMEOUT = 600
LEARNERS = ["linear", "svc", "knn:proba", "tree:proba", "knn:proba1"]


def plan(seed, tier):
    n = 60 if tier == "quick" else 4000
    cases = []
    for i in range(n):
        cases.append({"class": "fit", "index": i, "learner": LEARNERS[i % len(LEARNERS)], "max_iter": int(1 + (i * 7) % 10),
                      "direction": [None, "info0", None, "info1", "noise0"][(i // 5) % 5], "cost": 2})
    return cases


MANDATORY_CLASSES = ["fit"]


def make_dataset(tab, order=None, col_order=None):
    mokapot = core.import_mokapot()
    df = tab["df"].copy()
    df["Label"] = tab["truth"]["is_target"].values
    if order is not None:
        df = df.iloc[order].reset_index(drop=True)
    feats = list(tab["features"])
    if col_order is not None:
        feats = [feats[i] for i in col_order]
        other = [c for c in df.columns if c not in feats]
        df = df[other[:3] + feats[::-1] + other[3:]]
    return mokapot.LinearPsmDataset(df, target_column="Label", spectrum_columns=tab["spectrum_columns"],
                                    peptide_column="Peptide", protein_column="Proteins", feature_columns=feats,
                                    copy_data=True)


def fit_once(tab, ds, learner, max_iter, direction, shuffle, seed, train_fdr):
    mokapot = core.import_mokapot()
    feats = list(ds._feature_columns)
    tag = recorder.new_run_tag()
    est = recorder.make_estimator(learner, rid_col=feats.index("rid"), seed=seed, tag=tag)
    model = mokapot.Model(est, scaler=recorder.PassThroughScaler(), train_fdr=train_fdr, max_iter=max_iter,
                          direction=direction, shuffle=shuffle, rng=seed, override=True)
    c = core.Call(model.fit, ds)
    return model, c, recorder.snapshot(tag)


def replay(res, tab, model, log, train_fdr, direction, extra):
    """Check every fit event of one Model.fit call. Returns per-iteration positive sets."""
    tdc = core.mk("mokapot.qvalues").tdc
    df = tab["df"]
    rid = df["rid"].values.astype(np.int64)
    is_t = tab["truth"]["is_target"].values.astype(bool)
    t_of = dict(zip(rid.tolist(), is_t.tolist()))
    decoys = set(rid[~is_t].tolist())
    fits = [e for e in log if e["ev"] == "fit"]
    scores = [e for e in log if e["ev"] == "score"]
    pos_sets = []
    changed = False

    def expected_pos(vals_by_rid, desc):
        r = np.array(list(vals_by_rid.keys()), dtype=np.int64)
        v = np.array([vals_by_rid[k] for k in r.tolist()], dtype=float)
        t = np.array([t_of[k] for k in r.tolist()])
        q = np.asarray(tdc(v, t, desc=desc))
        return set(r[t & (q <= train_fdr)].tolist())

    for k, e in enumerate(fits):
        got_pos = set(int(r) for r, y in zip(e["rids"], e["y"]) if y == 1)
        got_neg = set(int(r) for r, y in zip(e["rids"], e["y"]) if y != 1)
        if len(e["rids"]) != len(set(int(r) for r in e["rids"])):
            res.violate("duplicate_rows_in_fit", f"iter{k}", **extra)
            return pos_sets, changed
        if k == 0:
            if direction is not None:
                vals = dict(zip(rid.tolist(), df[direction].values.astype(float).tolist()))
                pd_, pa_ = expected_pos(vals, True), expected_pos(vals, False)
                exp = pd_ if len(pd_) >= len(pa_) else pa_
            else:
                bf, desc = model.best_feat, model.desc
                if not isinstance(bf, str) or bf not in df.columns:
                    res.count("start_not_replayable")
                    pos_sets.append(got_pos)
                    continue
                vals = dict(zip(rid.tolist(), df[bf].values.astype(float).tolist()))
                exp = expected_pos(vals, bool(desc))
        else:
            if k - 1 >= len(scores):
                res.violate("missing_score_event", f"iter{k}", **extra)
                return pos_sets, changed
            se = scores[k - 1]
            vals = dict(zip([int(r) for r in se["rids"]], [float(x) for x in se["out"]]))
            if set(vals) != set(rid.tolist()):
                res.violate("scored_rows_not_training_set", f"iter{k}", n=len(vals), expected=len(rid), **extra)
                return pos_sets, changed
            exp = expected_pos(vals, True)
        res.count("fit_events_replayed")
        wrong_pos = got_pos ^ exp
        if wrong_pos:
            bad_decoys = [r for r in got_pos if not t_of.get(r, True)]
            res.violate("positives_not_accepted_targets", f"iter{k}", n_got=len(got_pos), n_expected=len(exp),
                        n_symmetric_difference=len(wrong_pos), decoys_labelled_positive=len(bad_decoys), **extra)
            return pos_sets, changed
        if got_neg != decoys:
            res.violate("negatives_not_all_decoys", f"iter{k}", n_got=len(got_neg), n_decoys=len(decoys),
                        targets_among_negatives=len([r for r in got_neg if t_of.get(r)]), **extra)
            return pos_sets, changed
        if pos_sets and got_pos != pos_sets[-1]:
            changed = True
        pos_sets.append(got_pos)
    return pos_sets, changed


def run_case(case):
    mokapot = core.import_mokapot()
    rng = core.seed_seq(case["seed"], "C12", case["index"])
    res = Result(case)
    learner = case["learner"]
    train_fdr = float(rng.choice([0.05, 0.1, 0.2]))
    tab = psm.psm_table(rng, n_spectra=int(rng.integers(250, 700)), mult_max=2, key_cols=("ExpMass",),
                        sep_strength=float(rng.choice([1.5, 2.5, 3.5])), ties=bool(case["index"] % 6 == 5))
    n = len(tab["df"])
    # every fourth table carries the feature that starts training as a fixed-point value with a large offset
    # (1e9 + milli-units): exact in float64, neighbours coincide in float32
    if case["index"] % 4 == 1:
        f0 = case["direction"] or "info0"
        tab["df"][f0] = 1e9 + np.round(tab["df"][f0].values * 1000)
    seed = int(rng.integers(1 << 30))
    extra = dict(learner=learner, max_iter=case["max_iter"], direction=case["direction"], n=n, train_fdr=train_fdr,
                 offset_feature=bool(case["index"] % 4 == 1))
    variants = {}
    perm = rng.permutation(n)
    for name, order, shuffle in (("base", None, True), ("noshuffle", None, False), ("permuted", perm, True),
                                 ("permuted_noshuffle", perm, False)):
        ds = make_dataset(tab, order)
        model, c, log = fit_once(tab, ds, learner, case["max_iter"], case["direction"], shuffle, seed, train_fdr)
        ex = dict(extra, variant=name)
        if not c.ok:
            if c.explicit:
                res.count("refused_fits")
                variants[name] = None
                continue
            res.violate("crash", c.sig + "/" + name, msg=c.info["msg"], **ex)
            variants[name] = None
            continue
        pos_sets, changed = replay(res, tab, model, log, train_fdr, case["direction"], ex)
        variants[name] = (model, pos_sets, changed)
        if res["violations"]:
            return res
    ok = {k: v for k, v in variants.items() if v is not None}
    if "base" not in ok:
        if len(ok) >= 2:
            res.violate("training_outcome_depends_on_order_or_shuffle", "base_refused", succeeded=sorted(ok), **extra)
            return res
        res["status"] = "refused"
        return res
    refused = sorted(k for k, v in variants.items() if v is None)
    if refused:
        res.violate("training_outcome_depends_on_order_or_shuffle", ",".join(refused), succeeded=sorted(ok), **extra)
    base_model, base_pos, base_changed = ok["base"]
    ds0 = make_dataset(tab)
    p0 = np.asarray(base_model.predict(ds0), dtype=float)
    tol = 1e-6 if learner == "linear" else 1e-4
    for name, (m, pos_sets, _) in ok.items():
        if name == "base":
            continue
        if pos_sets and base_pos and pos_sets[0] != base_pos[0]:
            res.violate("order_dependent_start_labels", name, **extra)
            continue
        if pos_sets != base_pos:
            res.count("variants_with_borderline_label_flip")
            continue
        if learner in ("linear", "svc"):
            p = np.asarray(m.predict(ds0), dtype=float)
            res.count("variant_predictions_compared")
            if not np.allclose(p, p0, rtol=tol, atol=tol * (1 + np.abs(p0).max())):
                res.violate("order_dependent_model", name, max_abs_diff=float(np.abs(p - p0).max()), **extra)
    # tunables of the tree under test that this machinery does not know by name (discovered in mokapot.constants):
    # training and prediction must not depend on them. Metamorphic comparison only - the replay model is not applied
    # to these runs because it assumes nothing about how a future implementation blocks its estimator calls.
    extras = core.extra_chunk_constants()
    if extras:
        sizes = {k: int(rng.choice([1, 2, 3, 7, n - 1])) for k in extras}
        with core.chunk_sizes(**sizes):
            m2, c2, _ = fit_once(tab, make_dataset(tab), learner, case["max_iter"], case["direction"], True, seed, train_fdr)
            res.count("fits_under_discovered_constants")
            if not c2.ok:
                if not c2.explicit:
                    res.violate("crash", c2.sig + "/discovered_constants", msg=c2.info["msg"], sizes=sizes, **extra)
            else:
                cp = core.Call(m2.predict, ds0)
                p2 = np.asarray(cp.value, dtype=float) if cp.ok else None
                if p2 is None or p2.shape != p0.shape or not np.allclose(p2, p0, rtol=tol, atol=tol * (1 + np.abs(p0).max())):
                    res.violate("model_or_prediction_depends_on_chunk_constant", ",".join(extras), sizes=sizes,
                                max_abs_diff=None if p2 is None or p2.shape != p0.shape else float(np.abs(p2 - p0).max()),
                                rows_differing=None if p2 is None or p2.shape != p0.shape else int((~np.isclose(p2, p0, rtol=tol, atol=tol * (1 + np.abs(p0).max()))).sum()),
                                **extra)
    # prediction matches features by name
    col_order = rng.permutation(len(tab["features"])).tolist()
    ds_cols = make_dataset(tab, None, col_order)
    c = core.Call(base_model.predict, ds_cols)
    res.count("column_permuted_predictions")
    if not c.ok:
        res.violate("crash", c.sig + "/predict_permuted_columns", msg=c.info["msg"], **extra)
    elif not np.array_equal(np.asarray(c.value, dtype=float), p0):
        res.violate("prediction_depends_on_column_position", "", max_abs_diff=float(np.abs(np.asarray(c.value) - p0).max()), **extra)
    # persistence
    with core.scratch("c12") as d:
        path = d / "model.pkl"
        c = core.Call(mokapot.save_model, base_model, path) if case["index"] % 2 else core.Call(base_model.save, path)
        if not c.ok:
            res.violate("crash", c.sig + "/save", msg=c.info["msg"], **extra)
        else:
            c2 = core.Call(mokapot.load_model, path)
            res.count("save_load_round_trips")
            if not c2.ok:
                res.violate("crash", c2.sig + "/load", msg=c2.info["msg"], **extra)
            else:
                c3 = core.Call(c2.value.predict, ds0)
                if not c3.ok:
                    res.violate("crash", c3.sig + "/predict_loaded", msg=c3.info["msg"], **extra)
                elif not np.array_equal(np.asarray(c3.value, dtype=float), p0):
                    res.violate("loaded_model_predicts_differently", "", **extra)
    # the scores the estimator itself produced for the training PSMs after its last fit are what predict() must return
    # for the same PSMs - directly after training, and again after the trained model has been refined by a second
    # fit() on the same PSMs with the feature columns in another order (documented use of a pre-trained model)
    rid_pos = {int(r): i for i, r in enumerate(tab["df"]["rid"].values)}

    def last_training_scores(log):
        ev = [e for e in log if e["ev"] == "score"]
        return dict(zip((int(r) for r in ev[-1]["rids"]), ev[-1]["out"])) if ev else {}

    def check_against(want, pred, what):
        if not want:
            return
        if any(r not in rid_pos for r in want):
            # the recording estimator finds the row ids in the column where the dataset's feature_columns put them:
            # values that are no row ids mean the estimator was handed the columns in another order
            res.violate("estimator_received_columns_in_unexpected_order", what, example=[int(r) for r in list(want)[:4]], **extra)
            return
        idx = np.array([rid_pos[r] for r in want])
        w = np.array([want[r] for r in want], dtype=float)
        res.count("predictions_compared_with_training_time_scores")
        # (summation order changes with the column order: with an offset feature the terms are ~1e6 and cancel to O(1),
        # leaving differences of ~1e-10; a misalignment shows as O(1))
        if not np.allclose(pred[idx], w, rtol=1e-9, atol=1e-7):
            res.violate("predict_differs_from_training_time_scores", what, rows=int((~np.isclose(pred[idx], w, rtol=1e-9, atol=1e-7)).sum()),
                        max_abs_diff=float(np.abs(pred[idx] - w).max()), **extra)

    tag = getattr(base_model.estimator, "tag", None)
    if tag:
        log1 = recorder.snapshot(tag)
        check_against(last_training_scores(log1), p0, "first_fit")
        # (the recording estimator finds the row ids by column position: the id column keeps its place, the others move)
        feats0 = list(tab["features"])
        others = [i for i, f in enumerate(feats0) if f != "rid"]
        moved = others[1:] + others[:1]
        order2 = list(range(len(feats0)))
        for src, dst in zip(others, moved):
            order2[src] = dst
        c = core.Call(base_model.fit, make_dataset(tab, None, order2))
        res.count("refits_with_permuted_columns")
        if c.ok:
            log2 = recorder.snapshot(tag)[len(log1):]
            cp = core.Call(base_model.predict, ds0)
            if not cp.ok:
                res.violate("crash", cp.sig + "/predict_after_refit", msg=cp.info["msg"], **extra)
            else:
                check_against(last_training_scores(log2), np.asarray(cp.value, dtype=float), "after_refit_with_permuted_columns")
        elif not c.explicit:
            res.violate("crash", c.sig + "/refit", msg=c.info["msg"], **extra)
    res["nontrivial"] = bool(len(base_pos) >= 2 and base_changed)
    res["sample"] = dict(extra, positives_per_iteration=[len(s) for s in base_pos], variants=sorted(ok))
    return res
