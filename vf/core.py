"""Shared plumbing for the runtime monitors: paths, seeds, result records,
exception classification, scratch directories, chunk-size control."""
from __future__ import annotations

import contextlib
import hashlib
import json
import os
import shutil
import sys
import tempfile
import traceback
from pathlib import Path

import numpy as np

VERIF = Path(__file__).resolve().parent.parent
REPO = Path(os.environ.get("MOKAPOT_REPO", "/repo")).resolve()
OUT = Path(os.environ.get("VERIF_OUT", str(VERIF)))
PYTHON = "/venv/bin/python"


def seed_seq(*parts) -> np.random.Generator:
    """Deterministic generator from (VERIF_SEED, property, class, index...)."""
    ints = []
    for p in parts:
        if isinstance(p, (int, np.integer)):
            ints.append(int(p) & 0xFFFFFFFF)
        else:
            ints.append(int(hashlib.sha256(str(p).encode()).hexdigest()[:8], 16))
    return np.random.default_rng(np.random.SeedSequence(ints))


def verif_seed() -> int:
    try:
        return int(os.environ.get("VERIF_SEED", "0"))
    except ValueError:
        return 0


# --------------------------------------------------------------------------
# results
# --------------------------------------------------------------------------
class Result(dict):
    """One observed execution (or a small batch of them).

    status: held | violated | inconclusive | refused | probe
    """

    def __init__(self, case, status="held", key=None, nontrivial=False, **kw):
        super().__init__()
        self["id"] = case.get("id")
        self["class"] = case.get("class", "")
        self["status"] = status
        self["key"] = key if key is not None else json.dumps(
            {k: v for k, v in case.items() if k != "id"}, sort_keys=True, default=str
        )[:400]
        self["nontrivial"] = bool(nontrivial)
        self["violations"] = []
        self["counters"] = {}
        self["evals"] = 1
        self.update(kw)

    def violate(self, kind, sig="", **detail):
        self["status"] = "violated"
        self["violations"].append(
            {"kind": kind, "sig": str(sig)[:300], "detail": _jsonable(detail)}
        )
        return self

    def count(self, name, n=1):
        self["counters"][name] = self["counters"].get(name, 0) + int(n)
        return self


def _jsonable(x, depth=0):
    if depth > 6:
        return str(x)[:200]
    if isinstance(x, dict):
        return {str(k): _jsonable(v, depth + 1) for k, v in list(x.items())[:60]}
    if isinstance(x, (list, tuple, set, frozenset)):
        return [_jsonable(v, depth + 1) for v in list(x)[:60]]
    if isinstance(x, (np.integer,)):
        return int(x)
    if isinstance(x, (np.floating,)):
        return float(x)
    if isinstance(x, np.bool_):
        return bool(x)
    if isinstance(x, np.ndarray):
        return _jsonable(x.tolist()[:60], depth + 1)
    if isinstance(x, (str, int, float, bool)) or x is None:
        if isinstance(x, str):
            return x[:2000]
        return x
    return str(x)[:300]


jsonable = _jsonable


def json_default(x):
    if isinstance(x, np.integer):
        return int(x)
    if isinstance(x, np.floating):
        return float(x)
    if isinstance(x, np.bool_):
        return bool(x)
    if isinstance(x, np.ndarray):
        return x.tolist()
    if isinstance(x, (set, frozenset)):
        return sorted(x, key=str)
    return str(x)[:300]


# --------------------------------------------------------------------------
# exception classification
# --------------------------------------------------------------------------
_TB_RE = None


def _frames(e):
    """(filename, lineno, name, line) frames, outermost first; joblib keeps the worker's
    traceback only as text in __cause__, so that text is parsed and appended."""
    global _TB_RE
    import re

    frames = [(fr.filename, fr.lineno, fr.name, fr.line or "") for fr in traceback.extract_tb(e.__traceback__)]
    cause = getattr(e, "__cause__", None)
    if cause is not None and "Traceback (most recent call last)" in str(cause):
        if _TB_RE is None:
            _TB_RE = re.compile(r'File "([^"]+)", line (\d+), in (\S+)\n\s+([^\n]*)')
        frames += [(m.group(1), int(m.group(2)), m.group(3), m.group(4)) for m in _TB_RE.finditer(str(cause))]
    return frames


def exc_info(e: BaseException) -> dict:
    """Describe an exception: type, message, innermost frame inside mokapot,
    and whether it was created by a `raise` statement in mokapot's own source."""
    tb = _frames(e)
    repo = str(REPO)
    inner_mokapot = None
    for fr in tb:
        if fr[0].startswith(repo + os.sep + "mokapot"):
            inner_mokapot = fr
    last = tb[-1] if tb else None
    explicit = bool(
        last is not None
        and last[0].startswith(repo + os.sep + "mokapot")
        and last[3].lstrip().startswith("raise")
    )
    return {
        "type": type(e).__name__,
        "msg": str(e)[:300],
        "frame": (inner_mokapot[2] if inner_mokapot else None),
        "file": (os.path.basename(inner_mokapot[0]) if inner_mokapot else None),
        "line": (inner_mokapot[1] if inner_mokapot else None),
        "explicit": explicit,
        "in_mokapot": inner_mokapot is not None,
    }


def exc_sig(info: dict) -> str:
    return f"{info['type']}@{info['file']}:{info['frame']}"


class Call:
    """Outcome of calling the code under observation."""

    def __init__(self, fn, *a, **kw):
        self.value = None
        self.exc = None
        self.info = None
        try:
            self.value = fn(*a, **kw)
        except Exception as e:  # noqa: BLE001 - everything is an observation
            self.exc = e
            self.info = exc_info(e)
        except SystemExit as e:
            self.exc = e
            self.info = exc_info(e)

    @property
    def ok(self):
        return self.exc is None

    @property
    def explicit(self):
        return self.info is not None and self.info["explicit"]

    @property
    def sig(self):
        return exc_sig(self.info) if self.info else ""


# --------------------------------------------------------------------------
# scratch space
# --------------------------------------------------------------------------
def scratch_root() -> Path:
    base = os.environ.get("VERIF_SCRATCH")
    if base:
        return Path(base)
    shm = Path("/dev/shm")
    if shm.is_dir() and os.access(shm, os.W_OK):
        return shm
    return Path(tempfile.gettempdir())


@contextlib.contextmanager
def scratch(prefix="vf"):
    d = Path(tempfile.mkdtemp(prefix=f"{prefix}-", dir=scratch_root()))
    try:
        yield d
    finally:
        shutil.rmtree(d, ignore_errors=True)


# --------------------------------------------------------------------------
# mokapot access
# --------------------------------------------------------------------------
CHUNK_CONSTANTS = (
    "CONFIDENCE_CHUNK_SIZE",
    "CHUNK_SIZE_READ_ALL_DATA",
    "CHUNK_SIZE_ROWS_PREDICTION",
    "CHUNK_SIZE_COLUMNS_FOR_DROP_COLUMNS",
    "CHUNK_SIZE_ROWS_FOR_DROP_COLUMNS",
    "MERGE_SORT_CHUNK_SIZE",
)


def import_mokapot():
    """Import mokapot from REPO and make sure that is what we got."""
    repo = str(REPO)
    if sys.path[0] != repo:
        sys.path.insert(0, repo)
    import mokapot  # noqa

    f = Path(mokapot.__file__).resolve()
    if not str(f).startswith(repo + os.sep):
        raise RuntimeError(f"mokapot imported from {f}, expected under {repo}")
    return mokapot


def mk(name):
    """Return a mokapot submodule by dotted name (the package __init__ shadows
    e.g. `mokapot.brew` with the function)."""
    import importlib

    import_mokapot()
    importlib.import_module(name)
    return sys.modules[name]


@contextlib.contextmanager
def chunk_sizes(**sizes):
    """Temporarily rebind the chunk-size constants in every loaded mokapot
    module that carries a copy (they are `from .constants import ...`)."""
    import_mokapot()
    for m in ("mokapot.brew", "mokapot.confidence", "mokapot.utils",
              "mokapot.parsers.pin", "mokapot.constants"):
        mk(m)
    saved = []
    unknown = set(sizes) - set(CHUNK_CONSTANTS) - set(extra_chunk_constants())
    if unknown:
        raise KeyError(unknown)
    for modname, mod in list(sys.modules.items()):
        if not modname.startswith("mokapot") or mod is None:
            continue
        for k, v in sizes.items():
            if k in getattr(mod, "__dict__", {}):
                saved.append((mod, k, mod.__dict__[k]))
                setattr(mod, k, int(v))
    try:
        yield len(saved)
    finally:
        for mod, k, v in saved:
            setattr(mod, k, v)


_EXTRA = None


def extra_chunk_constants():
    """Integer tunables present in mokapot.constants of the tree under test that this machinery does not know by
    name (added after it was written). Discovered at run time so that metamorphic monitors (results must not depend
    on a chunk size) also cover them; history-replay monitors never patch them."""
    global _EXTRA
    if _EXTRA is None:
        try:
            c = mk("mokapot.constants")
            _EXTRA = sorted(k for k, v in vars(c).items() if k.isupper() and type(v) is int and k not in CHUNK_CONSTANTS)
        except Exception:  # noqa: BLE001
            _EXTRA = []
    return list(_EXTRA)


def repo_state() -> dict:
    import subprocess

    def git(*a):
        try:
            return subprocess.run(
                ["git", "-C", str(REPO), *a], capture_output=True, text=True, timeout=30
            ).stdout
        except Exception:  # noqa: BLE001
            return ""

    head = git("rev-parse", "HEAD").strip()
    diff = git("diff", "HEAD", "--", "mokapot")
    return {
        "repo": str(REPO),
        "head": head,
        "mokapot_diff_sha": hashlib.sha256(diff.encode()).hexdigest()[:16],
        "mokapot_diff_lines": diff.count("\n"),
    }
