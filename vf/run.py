"""Driver: plan cases, shard them over fresh interpreters, collect what the
monitors observed, classify, write evidence, print the verdict lines.

usage: python -m vf.run <PROP> [quick|thorough] [--replay path] [--jobs N]
exit 0 held / 1 VIOLATION / 2 INCONCLUSIVE
"""
from __future__ import annotations

import argparse
import collections
import concurrent.futures as cf
import importlib
import json
import os
import re
import shutil
import subprocess
import sys
import tempfile
import time
from pathlib import Path

from vf import core


def _env_for(case_env):
    env = dict(os.environ)
    env["PYTHONPATH"] = f"{core.REPO}:{core.VERIF}"
    env.setdefault("PYTHONHASHSEED", "0")
    env["MOKAPOT_REPO"] = str(core.REPO)
    env["OMP_NUM_THREADS"] = "1"
    env["OPENBLAS_NUM_THREADS"] = "1"
    env["MKL_NUM_THREADS"] = "1"
    env["NUMBA_NUM_THREADS"] = "1"
    env["PYTHONDONTWRITEBYTECODE"] = "1"
    env["MPLBACKEND"] = "Agg"
    for k in list(env):
        if k.startswith("MOKAPOT_") and k != "MOKAPOT_REPO":
            del env[k]  # chunk sizes only when a case asks for them
    for k, v in (case_env or {}).items():
        env[k] = str(v)
    return env


def _run_shard(prop, cases, case_env, workdir, idx, case_timeout, shard_timeout):
    shard_path = workdir / f"shard{idx}.json"
    out_path = workdir / f"shard{idx}.jsonl"
    with open(shard_path, "w") as fh:
        json.dump({"cases": cases, "case_timeout": case_timeout}, fh)
    err = ""
    try:
        p = subprocess.run(
            [core.PYTHON, "-W", "ignore", "-X", "faulthandler", "-m", "vf.worker",
             prop, str(shard_path), str(out_path)],
            env=_env_for(case_env), cwd=str(workdir), capture_output=True, text=True,
            timeout=shard_timeout,
        )
        err = (p.stderr or "")[-3000:]
        rc = p.returncode
    except subprocess.TimeoutExpired as e:
        rc = -9
        err = "shard timeout " + str(e)[-500:]
    results = []
    fatal = None
    if out_path.exists():
        for line in open(out_path):
            line = line.strip()
            if not line:
                continue
            try:
                d = json.loads(line)
            except ValueError:
                continue
            if "fatal" in d:
                fatal = d
            else:
                results.append(d)
    return results, rc, err, fatal


def load_known(prop):
    p = core.VERIF / "known_findings.json"
    if not p.exists():
        return []
    data = json.load(open(p))
    return [f for f in data.get("findings", []) if f.get("property") == prop]


def match_known(known, res, v):
    for f in known:
        m = f.get("match", {})
        if "kind" in m and not re.fullmatch(m["kind"], v["kind"]):
            continue
        if "sig" in m and not re.search(m["sig"], v.get("sig", "")):
            continue
        if "class" in m and not re.fullmatch(m["class"], res.get("class", "")):
            continue
        return f
    return None


def main(argv=None):
    ap = argparse.ArgumentParser()
    ap.add_argument("prop")
    ap.add_argument("tier", nargs="?", default=os.environ.get("VERIF_TIER", "quick"),
                    choices=["quick", "thorough"])
    ap.add_argument("--replay")
    ap.add_argument("--jobs", type=int, default=int(os.environ.get("VERIF_JOBS", "16")))
    ap.add_argument("--classes", default=None, help="comma list: only these case classes")
    ap.add_argument("--limit", type=int, default=None)
    args = ap.parse_args(argv)
    prop = args.prop.upper()
    t0 = time.time()
    seed = core.verif_seed()
    mod = importlib.import_module(f"vf.props.{prop.lower()}")

    if args.replay:
        rep = json.load(open(args.replay))
        cases = [rep["case"]]
    else:
        cases = mod.plan(seed, args.tier)
    if args.classes:
        keep = set(args.classes.split(","))
        cases = [c for c in cases if c.get("class") in keep]
    if args.limit:
        cases = cases[: args.limit]
    for i, c in enumerate(cases):
        c["id"] = i
        c.setdefault("seed", seed)

    case_timeout = float(getattr(mod, "CASE_TIMEOUT", 300))
    # shards: same env together; round-robin so that expensive classes spread
    groups = collections.OrderedDict()
    for c in cases:
        groups.setdefault(json.dumps(c.get("env", {}), sort_keys=True), []).append(c)
    shards = []
    per = getattr(mod, "SHARD_SIZE", None)
    for envkey, cs in groups.items():
        n = per or max(1, -(-len(cs) // (args.jobs * 3)))
        cs = sorted(cs, key=lambda c: -float(c.get("cost", 1)))
        nsh = -(-len(cs) // n)
        buckets = [[] for _ in range(nsh)]
        for i, c in enumerate(cs):
            buckets[i % nsh].append(c)
        for b in buckets:
            shards.append((json.loads(envkey), b))

    workdir = Path(tempfile.mkdtemp(prefix=f"vf-{prop}-", dir=core.scratch_root()))
    results = {}
    notes = []
    try:
        with cf.ThreadPoolExecutor(max_workers=args.jobs) as ex:
            futs = {}
            for i, (env, cs) in enumerate(shards):
                cost = sum(float(c.get("cost", 1)) for c in cs)
                st = max(120.0, case_timeout * 1.5, cost * float(getattr(mod, "SECONDS_PER_COST", 5)) * 10)
                futs[ex.submit(_run_shard, prop, cs, env, workdir, i, case_timeout, st)] = (env, cs)
            for fu in cf.as_completed(futs):
                rs, rc, err, fatal = fu.result()
                for r in rs:
                    results[r["id"]] = r
                if fatal:
                    notes.append({"fatal": fatal["fatal"][-1500:], "info": fatal.get("info")})
                elif rc != 0:
                    notes.append({"rc": rc, "stderr": err[-1500:]})
        # retry what produced nothing (dead worker / watchdog), one case per process
        missing = [c for c in cases if c["id"] not in results]
        retried = len(missing)
        if missing and len(missing) <= 64:
            with cf.ThreadPoolExecutor(max_workers=min(4, args.jobs)) as ex:
                futs = [ex.submit(_run_shard, prop, [c], c.get("env", {}), workdir, 100000 + c["id"],
                                  case_timeout * 2, case_timeout * 3) for c in missing]
                for fu in futs:
                    rs, rc, err, fatal = fu.result()
                    for r in rs:
                        results[r["id"]] = r
                    if not rs:
                        notes.append({"retry_rc": rc, "stderr": err[-800:],
                                      "fatal": (fatal or {}).get("fatal", "")[-800:]})
        missing = [c for c in cases if c["id"] not in results]
    finally:
        shutil.rmtree(workdir, ignore_errors=True)

    ordered = [results[c["id"]] for c in cases if c["id"] in results]
    extra_cov = {}
    if hasattr(mod, "finalize"):
        fin = mod.finalize(cases, ordered, args.tier)
        if fin:
            ordered = ordered + list(fin.get("results", []))
            extra_cov = fin.get("coverage", {})

    # ---------------------------------------------------------------- verdict
    known = load_known(prop)
    by_case = {c["id"]: c for c in cases}
    out_ev = core.OUT / "evidence"
    out_rep = core.OUT / "replays"
    out_ev.mkdir(parents=True, exist_ok=True)
    out_rep.mkdir(parents=True, exist_ok=True)
    for old in out_rep.glob(f"{prop}-*.json"):
        old.unlink()

    status = collections.Counter(r["status"] for r in ordered)
    per_class = collections.defaultdict(lambda: collections.Counter())
    counters = collections.Counter()
    nontrivial_keys = set()
    evaluations = 0
    distinct_extra = 0
    new_viol = []
    known_hit = collections.OrderedDict()
    lost = []
    for r in ordered:
        per_class[r.get("class", "")][r["status"]] += 1
        evaluations += int(r.get("evals", 1))
        for k, v in r.get("counters", {}).items():
            counters[k] += v
        if r.get("nontrivial") and r["status"] in ("held", "violated"):
            if "distinct_n" in r:
                distinct_extra += int(r["distinct_n"])
            else:
                for k in (r["key"] if isinstance(r["key"], list) else [r["key"]]):
                    nontrivial_keys.add(k)
            per_class[r.get("class", "")]["nontrivial"] += 1
        if r.get("lost_exceptions"):
            lost.append({"class": r.get("class"), "lost": r["lost_exceptions"]})
        for v in r.get("violations", []):
            f = match_known(known, r, v)
            if f is not None:
                known_hit.setdefault(f["key"], {"finding": f, "n": 0, "example": v})["n"] += 1
            else:
                new_viol.append((r, v))

    harness_errors = [r for r in ordered if r.get("harness_error") and not r.get("violations")]
    inconclusive = status.get("inconclusive", 0) + len(missing)

    replay_paths = []
    seen_sig = set()
    for r, v in new_viol:
        sg = (v["kind"], v.get("sig", ""), r.get("class"))
        if sg in seen_sig or len(replay_paths) >= 12:
            continue
        seen_sig.add(sg)
        path = out_rep / f"{prop}-{len(replay_paths)}.json"
        with open(path, "w") as fh:
            json.dump({"property": prop, "tier": args.tier, "seed": seed,
                       "case": by_case.get(r.get("id"), r.get("case")), "violation": v,
                       "class": r.get("class")}, fh, indent=1, default=core.json_default)
        replay_paths.append(path)

    # evidence ------------------------------------------------------------
    minima_msgs = []
    mand = getattr(mod, "MANDATORY_CLASSES", None)
    if mand is None:
        mand = sorted({c.get("class", "") for c in cases})
    if not args.replay and not args.classes and not args.limit:
        for cl in mand:
            pc = per_class.get(cl, {})
            if pc.get("held", 0) + pc.get("violated", 0) < 1:
                minima_msgs.append(f"class {cl}: no decided execution")
    min_nt = int(getattr(mod, "MIN_NONTRIVIAL", 2))
    n_distinct = len(nontrivial_keys) + distinct_extra
    if n_distinct < min_nt and not args.replay:
        minima_msgs.append(f"only {n_distinct} distinct non-trivial cases (<{min_nt})")

    samples = []
    seen_cl = set()
    for r in ordered:
        cl = r.get("class")
        if cl in seen_cl or r.get("id") not in by_case:
            continue
        seen_cl.add(cl)
        s = {"case": {k: v for k, v in by_case[r["id"]].items() if k not in ("id",)},
             "status": r["status"]}
        if r.get("sample") is not None:
            s["observed"] = r["sample"]
        samples.append(core.jsonable(s))
        if len(samples) >= 10:
            break

    coverage = {
        "evaluations": int(evaluations),
        "distinct_nontrivial": n_distinct,
        "rule": getattr(mod, "RULE", ""),
        "samples": samples or [{"note": "no case produced a result"}],
        "cases_planned": len(cases),
        "status_counts": dict(status),
        "per_class": {k: dict(v) for k, v in sorted(per_class.items())},
        "monitor_counters": dict(counters),
        "inconclusive": inconclusive,
        "missing_results": len(missing),
        "harness_errors": [
            {"class": r.get("class"), "err": r["harness_error"][-600:]} for r in harness_errors[:5]
        ],
        "lost_thread_exceptions": lost[:5],
        "known_findings_hit": {k: v["n"] for k, v in known_hit.items()},
        "new_violation_signatures": sorted({f"{v['kind']}|{v.get('sig','')}|{r.get('class')}" for r, v in new_viol})[:40],
        "worker_notes": notes[:5],
        "slowest_cases_s": sorted(((r.get("wall", 0), r.get("class")) for r in ordered), reverse=True)[:3],
        "minima_unmet": minima_msgs,
        "repo_state": core.repo_state(),
    }
    if getattr(mod, "EXHAUSTIVE", None):
        coverage["exhaustive"] = bool(mod.EXHAUSTIVE(args.tier) if callable(mod.EXHAUSTIVE) else mod.EXHAUSTIVE) and not (args.classes or args.limit or args.replay) and not missing
    coverage.update(extra_cov)
    evidence = {
        "property_id": prop,
        "tier": args.tier,
        "seed": seed,
        "level": getattr(mod, "LEVEL", "exploration"),
        "coverage": coverage,
        "assumptions": list(getattr(mod, "ASSUMPTIONS", [])),
        "wall_s": round(time.time() - t0, 2),
        "violations": len(new_viol),
    }
    with open(out_ev / f"{prop}.json", "w") as fh:
        json.dump(evidence, fh, indent=1, default=core.json_default)

    # report --------------------------------------------------------------
    print(f"[{prop}] tier={args.tier} seed={seed} cases={len(cases)} evaluations={evaluations} "
          f"nontrivial={n_distinct} status={dict(status)} wall={evidence['wall_s']}s")
    if counters:
        print(f"[{prop}] monitor counters: {dict(counters)}")
    for k, h in known_hit.items():
        print(f"KNOWN-FINDING: property={prop} {h['finding'].get('summary', k)} (x{h['n']})")
    if new_viol:
        for r, v in new_viol[:8]:
            print(f"  violation kind={v['kind']} sig={v.get('sig','')} class={r.get('class')} "
                  f"detail={json.dumps(v.get('detail'), default=str)[:400]}")
        for p in replay_paths[:1]:
            print(f"VIOLATION property={prop} replay={p}")
        for p in replay_paths[1:]:
            print(f"  further replay: {p}")
        return 1
    if harness_errors or minima_msgs or (missing and len(missing) > 0) or status.get("inconclusive", 0) > max(2, len(cases) // 20):
        why = "; ".join(minima_msgs) or (
            f"{len(harness_errors)} harness errors, {len(missing)} cases without result, "
            f"{status.get('inconclusive',0)} inconclusive")
        if harness_errors:
            print(harness_errors[0]["harness_error"][-1500:])
        for n in notes[:2]:
            print("  note:", json.dumps(n)[:1500])
        print(f"INCONCLUSIVE property={prop} {why}")
        return 2
    print(f"[{prop}] HELD on everything observed")
    return 0


if __name__ == "__main__":
    sys.exit(main())
