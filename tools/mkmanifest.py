#!/usr/bin/env python3
"""Regenerate /verif/MANIFEST.json from the table below and the property modules present."""
import json
import os

HERE = os.path.dirname(os.path.dirname(os.path.abspath(__file__)))
props = [json.loads(l) for l in open(os.path.join(HERE, "properties.jsonl"))]

CHECKS = {
    "C01": dict(cat="exploration", tech="reference-model differential monitor on tdc/_update_labels (exhaustive small scope + random), numba bounds-check / no-JIT re-runs, in-situ recording contract on qvalues.tdc",
                text="Every weak ordering x labelling x direction up to n=6 (quick) / 7 (thorough) plus random stress is executed on the real tdc and compared with a brute-force threshold scan; held on what was executed, exhaustive only for the stated small scope.",
                note="float32 tolerance on q-values; reference model reviewed by hand; NaN/inf/empty input outside the statement", ref="5/C01"),
    "C02": dict(cat="exploration", tech="history + executable model: recording estimator log of brew() replayed against a sequential k-fold CV model",
                text="Each observed brew() call is judged from what every fold model was trained on and what it scored (unique row ids); reach comes from folds/files/key/cap/worker/learner/format diversity with seeded delays.",
                note="recording estimator is at the public estimator protocol boundary; 'any estimator' sampled by five kinds", ref="5/C02"),
    "C03": dict(cat="exploration", tech="differential monitor on result files of assign_confidence / CLI / brew_rollup: rows traced to input PSMs by unique id, dictionary group-by competition model (tie tolerant), q-values recomputed on the retained rows",
                text="Output files of the real entry points are judged per level against an independent group-by model over dedup/rollup/decoy/collection/prefix/format/chunk-size combinations.",
                note="higher levels judged relative to the PSM rows actually retained; PEP column judged in C06", ref="5/C03"),
    "C07": dict(cat="exploration", tech="history + model: best single feature recomputed on each fold model's recorded training rows; accepted genuine targets under returned scores compared; direction metamorphic check (x, desc=False) vs (-x, desc=True)",
                text="brew() is observed with estimators that learn, cannot learn, invert or memorise, over label encodings and feature directions; fallback or non-inferiority is decided from recorded training rows and ground-truth labels.",
                note="train_fdr = test_fdr; genuine targets from generator ground truth", ref="5/C07"),
    "C12": dict(cat="exploration", tech="history + model: every fit event of Model.fit replayed against the training-loop model (positives = accepted targets under the previous outputs, negatives = all decoys); metamorphic row/shuffle/column permutation and save/load",
                text="Direct observation of what the estimator is fed in each iteration, for shuffled, unshuffled and row-permuted variants.",
                note="start feature/direction read from the fitted model (C07 judges that choice)", ref="5/C12"),
    "C04": dict(cat="exploration", tech="statistical monitor with simulated ground truth: FDP of accepted targets from result files over R replicates per (design, learner, folds) cell, 6-sigma decision rule; C02 history checker run underneath every replicate; small-table regime for the +1 correction",
                text="Decides only statistically: a cell is violated iff mean FDP exceeds alpha by 0.25*alpha+0.005+6*SE; held iff within 3*SE; otherwise inconclusive (reported). Leaks are additionally reported with their exact witness from the estimator log.",
                note="exchangeability holds by construction of the simulator; power against a leak is learner dependent", ref="5/C04"),
    "C05": dict(cat="exploration", tech="metamorphic monitor: baseline vs variants differing in one chunk-size constant / worker count with injected delays and 1e-6 GIL switch interval / Parquet row-group layout; MOKAPOT_* environment variants in fresh interpreters",
                text="The identical table is run through read_pin -> brew -> assign_confidence in many configurations; scores and result files must agree (tie tolerant for the calibration-induced cross-fold ties); evidence reports threads actually observed.",
                note="PEP column compared only when scores are bit-identical (third-party spline fit is ill-conditioned)", ref="5/C05"),
    "C06": dict(cat="exploration", tech="invariant monitor (range, monotonicity, tie equality, permutation equivariance) on PEP / q-value estimators and on result-file PEP columns",
                text="Every selectable PEP and q-value algorithm is run on unsorted mixtures and on permutations of them; output files of assign_confidence are checked per algorithm.",
                note="no reference PEP values asserted; equivariance of interpolating q-estimators demanded on tie-free input only", ref="5/C06"),
    "C08": dict(cat="exploration", tech="metamorphic monitor over interpreter sessions: same seeded run under PYTHONHASHSEED / worker-count / in-process repeats, sha256 digests of fold assignment, coefficients, scores, result files; CLI save_models / load_models in every permutation",
                text="Groups of runs that must be bit-identical are executed in fresh interpreters; digests are compared without tolerance; all model permutations are fed back through the CLI.",
                note="np.random.seed(seed) counted as part of the fixed seed on the API path", ref="5/C08"),
    "C09": dict(cat="fault_enumeration", tech="fault injection through sys.addaudithook: every mutating file event of an earlier run is a crash point (exception / forked-child os._exit / torn file), observed run on the debris compared byte-for-byte with a clean-directory run; directory-listing monitor; CLI leftover <pin>.tsv",
                text="All K crash points of each enumerated producer are exercised in the chosen modes, plus completed producers and multi-run histories; verdict from directory snapshots (sha256), the audit log explains them.",
                note="exhaustive over the crash points of the enumerated producers only; pyarrow writes are seen through wrapped ParquetWriter/to_parquet", ref="5/C09"),
    "C10": dict(cat="exploration", tech="differential monitor on read_pin against the generator's ground truth (all feature counts 1..60, chunk sizes, casing, NaN placement, formats, workers) + rejection monitor",
                text="Tables are generated from a kept structure; the returned dataset is compared field by field; every feature count 1..60 is swept at the default column chunk size in both formats.",
                note="charge* feature membership not judged", ref="5/C10"),
    "C11": dict(cat="exploration", tech="history + model: per-fold raw outputs recovered from the estimator log, calibration formula recomputed; engineered no-accepted-target rerun must refuse",
                text="Per (file, fold) the returned scores must equal the calibration of the recorded raw outputs; a second run with an FDR between per-fold minima must raise.",
                note="accepted targets computed with the real tdc (C01)", ref="5/C11"),
    "C13": dict(cat="exploration", tech="differential monitor over all reader/writer implementations: every chunk size 1..N+1, column subsets, buffer kinds, append sequences",
                text="concat(chunks) vs read() and write/read-back equality on generated tables for all chunk sizes up to N+1.",
                note="dyadic floats / plain strings so text type inference is not in play", ref="5/C13"),
    "C14": dict(cat="exploration", tech="differential monitor with unique row ids on both k-way merge implementations + planted-inversion rejection monitor",
                text="Outputs must be a sorted permutation of the inputs for every chunk size; unsorted inputs must be rejected by the table merger.",
                note="inputs written by the harness with pandas/pyarrow", ref="5/C14"),
    "C15": dict(cat="exploration", tech="differential monitor on picked_protein() and on targets/decoys.proteins files: tokens mapped through the real peptide_map, pairs keyed by member sets, dictionary max per pair; decoration-invariance metamorphic check; protein q-values vs C01 formula",
                text="Generated databases (shared / subset / equal-set proteins, anagrams, shuffled FASTA orders) and decorated peptide tables; every entry is traced to a candidate peptide row.",
                note="peptide -> group lookup trusted to C16; target-only FASTA not judged here", ref="5/C15"),
    "C16": dict(cat="exploration", tech="invariant monitor on read_fasta maps: exhaustive small incidence matrices, all entry orders, PYTHONHASHSEED sweep in fresh interpreters",
                text="The statement's grouping conditions are checked directly on every incidence matrix up to 4x4 (5x4 thorough) and random structures; canonical dumps compared across entry orders and hash seeds.",
                note="group membership parsed from group names", ref="5/C16"),
    "C17": dict(cat="exploration", tech="reference-model differential monitor on digest: exhaustive sequences over a 4-letter alphabet x full parameter grid, seeded draws, random long sequences",
                text="All sequences up to length 5 (quick) / 7 (thorough) x 8 enzymes x 448 parameter combinations, plus draws to length 8/10 and monotonicity/substring checks.",
                note="cleavage sites computed by the harness without `re`; min_length=0 probed only", ref="5/C17"),
    "C18": dict(cat="exploration", tech="differential monitor on make_decoys output via an independent FASTA reader, peptide-by-peptide comparison",
                text="Every decoy compared with its target at the target's cleavage sites; concatenation order and round trip checked.",
                note="'any RNG state' sampled", ref="5/C18"),
    "C19": dict(cat="exploration", tech="differential monitor on pin_to_valid_tsv / is_valid_tsv with expected output built from the generator's structure",
                text="Conversion, validity of output, idempotence and the validity predicate on generated PIN and generic texts.",
                note="fields non-empty and without surrounding blanks", ref="5/C19"),
    "C20": dict(cat="exploration", tech="differential monitor on read_pepxml(to_df=True) against generated documents + rejection monitor",
                text="Row-by-row comparison of every generated search hit; Percolator / non-PepXML inputs must raise.",
                note="DataFrame column names are part of the observable API", ref="5/C20"),
}

PENDING_REASON = "monitor designed in DESIGN.md section 5 but not yet built in this tree; not claimed until its check exists"

checks = []
na = []
for p in props:
    pid = p["id"]
    have = os.path.exists(os.path.join(HERE, "vf", "props", pid.lower() + ".py"))
    if pid in CHECKS and have:
        c = CHECKS[pid]
        checks.append({
            "property_id": pid,
            "quick_cmd": f"./check {pid} quick",
            "thorough_cmd": f"./check {pid} thorough",
            "evidence_file": f"/verif/evidence/{pid}.json",
            "replay_cmd_template": f"./check {pid} --replay {{path}}",
            "engine": "vf",
            "level_claimed": {"category": c["cat"], "text": c["text"], "design_ref": "DESIGN.md " + c["ref"]},
            "level_note": c["note"],
            "technique": c["tech"],
        })
    else:
        na.append({"property_id": pid, "reason": PENDING_REASON})

manifest = {
    "version": 1,
    "setup_cmd": "/venv/bin/python -c \"import numpy, pandas, sklearn, pyarrow, lxml, numba\"",
    "hooks": {
        "guard": "MOKAPOT_VERIF",
        "enable": "no hooks are compiled into the repository: every observation point is a public protocol (estimator, scaler, file system, environment variables) or a module attribute wrapped from the harness; checks import mokapot from /repo's working tree in fresh interpreters (MOKAPOT_REPO selects another tree for mutant validation)",
        "baseline_off_cmd": "cd /repo && /venv/bin/python -m pytest -ra -q -p no:cacheprovider --timeout=900 --continue-on-collection-errors",
        "source_commits": [],
        "add_only": True,
    },
    "engines": [{"name": "vf", "path": "/verif/vf", "serves_properties": [c["property_id"] for c in checks],
                 "kind_free_text": "runtime monitoring harness: seeded workload generators, recording instruments, reference-model / history checkers, subprocess-sharded driver"}],
    "checks": checks,
    "not_applicable": na,
    "notes": "Runtime monitoring only. Exit 0 = held on everything observed, 1 = VIOLATION (replay file written), 2 = INCONCLUSIVE (deciding monitor not reached). Known findings are in known_findings.json (mechanism-keyed).",
}
with open(os.path.join(HERE, "MANIFEST.json"), "w") as fh:
    json.dump(manifest, fh, indent=1)
print("checks:", [c["property_id"] for c in checks])
print("not claimed:", [n["property_id"] for n in na])
