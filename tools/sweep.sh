#!/bin/bash
# usage: tools/sweep.sh <tier> "<seeds>" [props...]   - runs checks for several VERIF_SEED values; prints rc != 0
cd "$(dirname "$0")/.."
tier=${1:-quick}; seeds=${2:-"0 1 2 3 7"}; shift; shift
props=${@:-$(python3 -c "import json;print(' '.join(c['property_id'] for c in json.load(open('MANIFEST.json'))['checks']))")}
mkdir -p /tmp/vf-sweep
for sd in $seeds; do
  for p in $props; do
    out=/tmp/vf-sweep/$p.$tier.$sd.log
    VERIF_OUT=/tmp/vf-sweep/out VERIF_SEED=$sd ./check $p $tier > $out 2>&1
    rc=$?
    echo "seed=$sd $p rc=$rc $(grep -c KNOWN-FINDING $out) known $(tail -1 $out | cut -c1-160)"
  done
done
