#!/usr/bin/env python3
"""Validate MANIFEST.json and every evidence file against the schemas (run with python3-vt)."""
import json, sys, glob
import jsonschema
ok = True
m = json.load(open("/verif/MANIFEST.json"))
try:
    jsonschema.validate(m, json.load(open("/root/.vp/MANIFEST.schema.json")))
    print("MANIFEST ok;", len(m["checks"]), "checks")
except jsonschema.ValidationError as e:
    ok = False; print("MANIFEST INVALID", e.message)
sch = json.load(open("/root/.vp/EVIDENCE.schema.json"))
for c in m["checks"]:
    p = c["evidence_file"]
    try:
        ev = json.load(open(p))
        jsonschema.validate(ev, sch)
        cov = ev["coverage"]
        print(f"{c['property_id']} ok tier={ev['tier']} evals={cov['evaluations']} distinct={cov['distinct_nontrivial']} viol={ev.get('violations')} wall={ev['wall_s']}")
    except Exception as e:
        ok = False; print(c["property_id"], "EVIDENCE INVALID", str(e)[:300])
ids = {c["property_id"] for c in m["checks"]} | {n["property_id"] for n in m.get("not_applicable", [])}
allp = {json.loads(l)["id"] for l in open("/verif/properties.jsonl")}
if ids != allp:
    ok = False; print("properties not covered by checks/not_applicable:", allp - ids)
sys.exit(0 if ok else 1)
