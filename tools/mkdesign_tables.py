#!/usr/bin/env python3
"""Regenerate DESIGN.md section 12 from seeded/*/meta.json and mutants_results.json."""
import glob, json, os
HERE = os.path.dirname(os.path.dirname(os.path.abspath(__file__)))
MISSED = [
 ("C04-a (cap drawn from row positions)", "no `subset_max_train` in the C04 workload", "every second replicate trains capped; cap handed to the CV checker"),
 ("C06-a/b (PEPs looked up by dense rank)", "structural clauses hold; only the value is another PSM's", "reference: triqler's own PEP for each score (`pep_of_another_psm`)"),
 ("C08-a (set order of surviving features)", "no features with missing values in the determinism tables", "groups with NaN feature columns"),
 ("C01-b (signed ints not converted)", "integer scores were small and non-negative", "int8 / int64 grids starting at the dtype minimum, `int_extremes` regime"),
 ("C09-b (extra chunk index at exact multiples)", "observed run's row count never an exact multiple of its chunk size", "even row counts (exactly two chunks) in half of the producers"),
 ("C10-b (integer columns skip the NaN scan)", "NaNs only in float-typed columns", "nullable integer feature columns"),
 ("C02-b / C04-b (fold labels mis-sliced in chunked prediction)", "brew always predicted in one chunk", "prediction / training-read chunk sizes in C02 and C04 (this also exposed **D20** on the unchanged tree)"),
 ("C03-b (cross-chunk de-duplication off between 1 and 2 chunks)", "plan parameters correlated (`n-1` chunk size only with de-duplication off)", "independent parameter draws, chunk sizes 0.4n / 0.6n"),
 ("C05-b (early `break` in the NaN scan)", "one constant varied at a time", "pairs of constants, Parquet/worker + constant combinations"),
 ("C07-b (`test_fdr` dropped from the comparison)", "only loose FDRs, no learner that is worse at 0.3 % and better at 1 %", "strict-FDR cases with the `spiky` memorising learner"),
 ("C08-b (models sorted only in non-ensemble mode)", "no `--ensemble` run", "ensemble CLI group with all permutations"),
 ("C15-b / C18-b / C19-b", "names never started with prefix letters; sequences were letters only; protein column never first", "gene-like names + several prefixes; `* - X U` symbols; `pos=zero`"),
 ("C04-c (training sets popped from a shared list by whichever thread comes first)", "C04 ran single-threaded", "every fourth replicate with 3 workers under the scheduler instrument"),
 ("C05-c (chunk files merged in thread-completion order)", "tie-free scores only; schedule effects on tie-breaking invisible", "`schedule` class: tie-heavy scores, 1 vs 2..8 perturbed workers, byte comparison"),
 ("C07-c (fallback scores appended in completion order)", "one worker, equal-sized collections", "3 workers, first collection 3x larger, length check of returned scores"),
 ("C08-c (ensemble mean over a completion-ordered list)", "ensemble only through the single-worker CLI", "ensemble API groups with 1/3/8 workers and delays"),
 ("C11-c (one Parallel call over all prediction chunks)", "C11 never predicted in chunks", "chunked prediction + perturbed schedule in the multi-worker cases"),
 ("C13-c (Dicts buffer aliases the caller's list)", "fresh list per append", "callers that clear and refill one list object"),
 ("C06-c / C10-c / C17-c (module-level caches keyed by id / path / pattern text)", "new objects, new paths, unflagged patterns per call", "buffer-reusing callers (C06), same path rewritten (C10), flagged compiled patterns interleaved with same-text strings (C17)"),
 ("C15-c (stripped sequences realigned by index label)", "peptide tables always had a RangeIndex", "caller tables that keep shuffled index labels"),
 ("C19-c (stray line at multiples of the write batch)", "at most 200 rows", "row counts 999/1000/1001/2000/4096"),
 ("C02-d (spectrum starts from full keys in hash order)", "different spectra never shared the first two key columns", "`share_scan`: runs of spectra that agree in file, scan and retention time and differ only in ExpMass (C02, C03)"),
 ("C04-d (target wins exact target/decoy score ties)", "continuous scores; tree probabilities tie only among low-scoring nulls", "`coarse` class: 3/5-level saturating scores straight through `assign_confidence`, 20 alphas up to 0.71, 200 replicates per cell, no learning slack"),
 ("C09-d (rollup reads earlier `rollup.*` outputs left in the input directory)", "`brew_rollup` had no history workload", "`rollup_history` class: 1..3 earlier rollups (other input sets, src = dest / other / `x/../src`, completed or aborted), byte comparison with a pristine directory"),
 ("C11-d (`q < fdr` instead of `<=` for the 0-anchor)", "test FDRs 0.01 / 0.05 / 0.2 are not representable in float32, so q never *equals* the threshold", "test FDRs 0.25 and 0.5; `folds_with_q_equal_to_threshold` counted"),
 ("C03-e (CLI sorts the input files but not the prefixes)", "the CLI was only run on one file", "`cli_multi` class: 2..3 files in non-sorted order, per-stem files judged"),
 ("C04-e (capped training rows of every file but the last drawn from the last file's indices)", "C04 modelled one collection (C02 caught it at once)", "two-collection replicates in C04"),
 ("C05-e (ensemble prediction chunks re-checked for both labels)", "no ensemble runs among the chunk-size variants", "every sixth C05 table rescored with `ensemble=True`"),
 ("C06-e (SQLite writer stores score and PEP in each other's columns for rolled-up levels)", "only text result files were read", "SQLite result database compared with the text files in C06 `files`"),
 ("C10-e (`read_pin` hands exp/calc mass names on in swapped positions)", "optional column names were only auto-detected", "explicit column keywords, and str / Path / list / tuple path forms (the latter exposed **D22**)"),
 ("C11-e (CLI calibrates at `--train_fdr`)", "C11 drove the API only", "`cli` class with the recording model injected into the command-line entry point"),
 ("C12-e (refit of a trained model keeps the stale feature order)", "every model was fitted once", "second `fit()` with moved feature columns; `predict()` compared with the estimator's own last training-time scores"),
 ("C13-e (class-level shared reader arguments)", "one delimiter, one reader alive at a time", "explicit `sep` values and bystander readers / writers with another delimiter"),
 ("C14-e (`merge_sort` ignores its `score_column`)", "the column was always called `score`", "caller-chosen column names with an unrelated `score` column beside them"),
 ("C15-e (CLI drops `--clip_nterm_methionine`)", "digest options never went through the CLI", "`cli_digest` class"),
 ("C19-e (first PSM joined with the default separator) ", "only the default protein separator, only the function", "caller-given separators through function and tool `main()` (the latter with a leftover output file exposed **D23**)"),
 ("C20-e (`exclude_features` accumulates in a module-level list)", "one call per process state", "default call repeated after a call with `exclude_features`"),
 ("C05-f (global de-duplication key no longer treats missing values as equal)", "spectrum-key columns never held missing values", "every seventh C05 table has a retention-time key column that is empty for 20% of the spectra"),
 ("C07-f (fallback decision counts tied scores in file order)", "rows always shuffled", "files with all targets before all decoys (and the reverse)"),
 ("C08-f (fold hash from builtin `hash()` of the key tuple)", "spectrum keys were numeric in the determinism tables", "a string-valued key member (file name) in the API groups"),
 ("C09-f (cleanup by an unescaped glob on the prefix)", "prefixes and file roots were plain words", "prefixes / file roots with `[ ] * ?`; files the run created *or rewrote* count as its intermediates"),
 ("C11-f (vectorised anchor search treats tied scores rank by rank)", "tie-free model outputs", "a third of the C11 tables have coarse features (exactly tied model outputs), some unshuffled"),
 ("C04-g (`<=` in the chunk merge: later chunk wins exact ties)", "no label-sorted files with tied scores across chunks", "`decoys_first_ties` class (the mirrored layout is the known finding **F3**, class `sorted_ties`, found on the unchanged tree while confirming this change)"),
 ("C06-g (PEPs re-aligned with a float32 key for integer scores)", "float scores only", "`bigint` score form: int64 fixed-point scores around 1e9"),
 ("C07-g (`_update_labels` no longer casts to float64: integer features ranked in float32)", "features were floats of order 1", "a quarter of the C07 tables carry the informative feature as 10**12 + milli-units (int64)"),
 ("C12-g (labels from float32-cast scores)", "start features of order 1", "every fourth C12 table starts from a feature 1e9 + milli-units"),
 ("C13-g (later CSV chunks cast to the first chunk's inferred dtypes)", "floats always written with a decimal point", "half of the delimited files written with `%.17g` (2 instead of 2.0)"),
 ("C15-g (fast path when no protein group repeats)", "every table had several peptides per group", "sparse tables: one peptide per occurring group"),
 ("C20-g (scan numbers stored as int32)", "scan numbers were small", "documents with scans in the upper half of the unsigned 32-bit range"),
 ("C02-h (a spectrum larger than the last fold is split instead of refused)", "no skewed tables, `_split` only reached through brew", "`split` class: `_split` driven directly on small / skewed tables; a returned split must be spectrum-closed"),
 ("C03-h (rollup drops input collections whose name begins with the file-root text)", "collection names never began like the file root", "collections `rollup_0`, `run0` + `--file_root run`, `set0` + `--file_root se`"),
 ("C04-h (builtin `hash()` for the fold split; leaks when saved models re-score in another session)", "C04 never re-used saved models (C08 caught the change at once)", "`reuse` class: models pickled in one interpreter session re-score the collection in another (other hash seed, string-valued key member)"),
 ("C05-h (missing-value flags overwritten per row chunk)", "C05 tables had no features with missing values", "every fourth C05 table has three features with a few missing values (early / late / anywhere)"),
 ("C07-h (best feature of the *last* fold instead of the best fold)", "one dominant feature: all folds agreed", "a third of the C07 tables carry a twin feature of equal quality with the opposite direction"),
 ("C09-h (`finally: move(tsv, pin)` after a failed conversion)", "no failure injected inside the CLI's PIN conversion", "the k-th write to `<pin>.tsv` fails (opener shadowed inside `mokapot.mokapot`): input must stay original or completely converted, rerun must match the clean run"),
 ("C11-h (refusal flag reset per fold: only the last fold can refuse)", "*reached* but reported as inconclusive: a duplicated keyword in the monitor's own `violate()` call raised `TypeError`", "harness bug fixed (keyword renamed)"),
 ("C13-h (tail rows stay in the buffer after the forced flush)", "one session per writer object", "second initialise / append / finalise session on the same writer"),
 ("C15-h (`group_without_decoys` writes into the `Proteins` object's map)", "no target-only FASTA in C15, one call per object", "`target_only_reuse` class (its first run on the unchanged tree exposed **D24**)"),
 ("C20-h (a non-PepXML file among valid ones is skipped silently)", "foreign files only on their own", "foreign / text files before, after and between valid PepXML files"),
 ("C07-i (best-feature values assigned only after a successful fit + `feat_pass or 0`)", "*reached* but reported as inconclusive: the monitor formatted `int(m.feat_pass)` of a `None`", "harness bug fixed (None-tolerant witness)"),
 ("C11-i (`groupby('fold')` + positional enumerate in `_predict`)", "C11's oracle grouped rows by the model that scored them, whichever that was (C02 caught the change)", "prediction chunk sizes leaving 1..3 trailing rows; a row calibrated by a model that trained on it is a violation"),
 ("C12-i (features in DataFrame order vs `feature_columns` order)", "*reached* (refit data set) but the garbage row ids raised `KeyError` in the monitor", "row ids that are no row ids are reported as `estimator_received_columns_in_unexpected_order`"),
 ("C13-i (one-shot Parquet `write()` keeps the frame's index)", "writers were only fed through `append_data`", "one-shot `write()` of mask-selected / re-ordered frames, read back whole and in chunks"),
 ("C15-i (protein level built from the level before it instead of the peptide level)", "no further roll-up levels together with proteins", "a third of the C15 file tables carry PeptideGroup (and ModifiedPeptide) columns"),
 ("C16-i (`decoy_prefix` not handed on: decoys listed as targets)", "only the pairing of targets was checked", "`decoy_listed_as_target` clause in the grouping oracle"),
 ("C03-j (`groupby(...).first()` fills a winner's empty cell from a loser)", "no missing metadata cells", "a quarter of the PSMs of every third C03 table have no protein annotation"),
 ("C04-j (stable per-chunk sort: file order decides exact ties)", "label-sorted files only with the competitors in different chunks", "`targets_first_one_chunk` class"),
 ("C07-j (`Series[0]` is a label lookup: learned scores compared with the first fold's count)", "needs learned scores between the first fold's and the best fold's count", "caught by the thorough tier only (`overfit` learner, 4 folds); recorded as such"),
 ("C09-j (`os.open` without `O_TRUNC` for `<pin>.tsv`)", "leftover conversions were never longer than the new one", "`longer_foreign` leftover"),
 ("C13-j (buffer aliases the caller's first frame)", "a fresh frame per append", "callers that refill one scratch frame in place for equal-sized batches"),
 ("C14-j (head values kept in an integer-typed numpy array)", "floats always written with a decimal point; no integer-valued heads", "`inthead` inputs + `%.17g` text files (inputs whose inferred types differ are refused by the merger itself and counted)"),
 ("C18-j (records split on a bare `>`)", "descriptions never contained `>`", "descriptions such as `5'->3' exonuclease` and merged deflines"),
 ("C20-j (`splitext` on the run's base name)", "run names had no dots besides the extension", "run names like `run_0_1_0.5ug`, `run.v2`"),
 ("C02-k / C08-k (hash-sorted spectrum order memoised per file path at module level; C08-k: `np.split` views of the cached array shuffled in place)", "every observed brew was the first use of its path in the process", "history prelude (§3.8): other data of the same shape written to the same paths and brewed with another fold count earlier in the process, files restored byte for byte; C08 `repeat` runs it between the first and the second identical run"),
 ("C07-k (`update_labels` reads the label column through an `lru_cache` keyed by path)", "as above; a row-permuted earlier table only makes the fallback trigger more often, which is safe", "`few_decoys` prelude: the same rows with most decoys relabelled as targets, so that stale labels make useless learned scores look good"),
 ("C05-k / C14-k (parsed head scores of the merge inputs memoised at module level by input index)", "every `merge_sort` generator was consumed to the end before the next one started", "C14: a merge left partly consumed (generator kept alive) before the judged one, two merges consumed in lock-step; C05: an abandoned merge of foreign sorted files before the chunked variants"),
 ("C16-k (`read_fasta` memoises digests per sequence, key without `semi`)", "no database was read twice in one process with different digestion settings", "every `seqs` database is read again with exactly one digestion setting changed, then with the first settings again (`history_reads`)"),
 ("C17-k (`digest` returns the `lru_cache` entry itself)", "returned sets were only read", "every fourth call: the returned set is edited in place by the caller and the same call repeated (`result_aliases_internal_state`)"),
 ("C10-l (header read with plain utf-8 decoding: a byte-order mark stays in the first column name)", "text inputs were always written by pandas without a BOM", "a fifth of the text tables start with a UTF-8 BOM, a fifth use CRLF line endings"),
 ("C18-l (bytes read without newline translation + `split('\\n')`)", "all databases had LF line endings", "a third of the input databases are written with CRLF line endings"),
 ("C12-d (new scoring block size, last row unscored when n % size == 1)", "the constant did not exist when the monitors were written; tables are far smaller than its default", "tunables are discovered in `mokapot.constants` at run time; C05 adds a variant per discovered constant, C12 a metamorphic refit under small values of it"),
]
seed_rows = ["| seeded change | needs | result |", "|---|---|---|"]
for d in sorted(glob.glob(os.path.join(HERE, "seeded", "*"))):
    m = json.load(open(os.path.join(d, "meta.json")))
    res = "; ".join(f"{k} {v['verdict']}" for k, v in m.get("what_was_run", {}).items())
    needs = m.get("needs") or ""
    needs = needs if isinstance(needs, str) else json.dumps(needs)
    seed_rows.append(f"| `{os.path.basename(d)}` | {needs[:230].replace('|', '/').replace(chr(10), ' ')} | {res} |")
mut = json.load(open(os.path.join(HERE, "mutants_results.json")))
rows = ["| change | property | quick-tier verdict | note |", "|---|---|---|---|"]
for x in mut:
    rows.append(f"| `{x['id']}` | {x['prop']} | {x.get('verdict', '?').upper()} | {x.get('note', '')} |")
missed = ["| missed at first | what the monitor lacked | extension |", "|---|---|---|"] + [f"| {a} | {b} | {c} |" for a, b, c in MISSED]
n = len(seed_rows) - 2
text = f'''## 12. Which checks catch which changes

### 12.1 Independently written changes (`/verif/seeded/<id>/`)

Eleven rounds (a-k) of twenty and a last round (l) of eight sub-agents were each given only the text of one property and a scratch
worktree and asked for a change that breaks it while the pinned suite keeps passing (rounds d-k
with the guidance texts `tools/seed_guidance_*.txt`; round k: violations that depend on history,
state kept between calls and aliasing; round l: the environment and the form of paths and names; round b
with the hint to avoid the obvious one-liners; round c steered towards concurrency, failures
at a particular point, process-level state and option interplay for the pipeline properties,
and towards argument forms, extreme values and state kept between calls for the function-level
ones). Every change was confirmed with `tools/seed_eval.py` (demo exits 0 on the unmodified tree
and 1 on the modified one, no baseline test fails) and the owning quick check was run against
it. {len(MISSED)} groups of changes were **missed at first** and led to the monitor extensions
below; {n - 2} of the {n} are caught now (`C19-l`, the CLI's conversion target `with_suffix(".tsv")`, not by C19's own check, which drives
`pin_to_valid_tsv` directly, but by C09's `cli_tsv` class, which sees the conversion written under another name); two changes of the last round are **not caught** and are kept
as open work: `C08-l` (an input list naming the same PIN file twice is collapsed through a `set`, so the dataset order depends on the hash seed: C08's
tables never name a file twice) and `C13-l` (appends bypass the compression that the header and the reader infer from a `.gz` / `.bz2` file name: C13 only
uses plain `.csv` / `.tsv` / `.parquet` names). Time ran out before these two extensions could be written and
validated on the unchanged tree (verdicts in the second table are from the final state of the
checks at the time each change was evaluated).

{chr(10).join(missed)}

{chr(10).join(seed_rows)}

### 12.2 Hand-written changes (`tools/mutants.py`, results in `mutants_results.json`)

CAUGHT = exit 1 with a VIOLATION line in the quick tier; SILENT entries are property-preserving
(or noted otherwise) and must stay silent.

{chr(10).join(rows)}

### 12.3 Reverting each `fix:` commit (`tools/revert_fixes.py`, `revert_results.json`)

Each fix of §6 was reverted on a scratch worktree of HEAD and the owning quick check run
against it: every revert is reported again (D16 through the C05 protein-level tables and C08;
D18 through the computed-column subsets that were made deterministic after the first revert
run had missed it at seed 0). Three reverts (D17, D19, D21) no longer apply textually because later fixes touch the
same lines; they are undone through the catalogue changes `c08-unsorted-match`,
`c15-first-member-key` and `c08-match-decoy-global-rng`, which restore the old code at that site.
All 24 are caught.
'''
p = os.path.join(HERE, "DESIGN.md")
s = open(p).read()
a = s.index("## 12. Which checks catch which changes")
open(p, "w").write(s[:a] + text)
print("seeded", n, "mutants", len(mut))
