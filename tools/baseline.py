#!/usr/bin/env python3
"""Run the repository's pinned suite (guard off) and compare with BASELINE.json's stable_pass."""
import json
import os
import subprocess
import sys
import tempfile
import xml.etree.ElementTree as ET

repo = sys.argv[1] if len(sys.argv) > 1 else "/repo"
base = json.load(open("/root/.vp/BASELINE.json"))
want = set(base["stable_pass"])
out = tempfile.mktemp(suffix=".xml", dir="/tmp")
env = {k: v for k, v in os.environ.items() if not k.startswith("MOKAPOT_")}
env["PYTHONPATH"] = repo
p = subprocess.run(
    ["/venv/bin/python", "-m", "pytest", "-ra", "-q", "-p", "no:cacheprovider", "--timeout=900",
     "--continue-on-collection-errors", f"--junitxml={out}"],
    cwd=repo, env=env, capture_output=True, text=True)
passed = set()
for tc in ET.parse(out).getroot().iter("testcase"):
    if not any(ch.tag in ("failure", "error", "skipped") for ch in tc):
        passed.add(f"{tc.get('classname')}::{tc.get('name')}")
os.unlink(out)
missing = sorted(want - passed)
print(f"passed={len(passed)} baseline={len(want)} baseline_now_failing={len(missing)} newly_passing={len(passed - want)}")
for m in missing:
    print("  NOW FAILING:", m)
sys.exit(1 if missing else 0)
