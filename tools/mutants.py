#!/usr/bin/env python3
"""Catalogue of hand-written property-breaking (and property-preserving) one-line changes,
and a runner that applies each to a scratch worktree and runs the owning quick check.

usage: tools/mutants.py [--only C03,C05] [--jobs 3] [--tests]   -> writes mutants_results.json
"""
import argparse
import json
import os
import subprocess
import sys
import tempfile
from concurrent.futures import ThreadPoolExecutor

HERE = os.path.dirname(os.path.dirname(os.path.abspath(__file__)))

# (id, property, expected, file, old, new, [classes])   expected: caught | silent (property preserving)
M = []


def m(mid, prop, expected, path, old, new, classes=None):
    M.append(dict(id=mid, prop=prop, expected=expected, path=path, old=old, new=new, classes=classes))


Q = "mokapot/qvalues.py"
DS = "mokapot/dataset.py"
BR = "mokapot/brew.py"
CF = "mokapot/confidence.py"
FA = "mokapot/parsers/fasta.py"
PIN = "mokapot/parsers/pin.py"
UT = "mokapot/utils.py"
TD = "mokapot/tabular_data.py"
ST = "mokapot/streaming.py"
PEPS = "mokapot/peps.py"
MD = "mokapot/model.py"
PX = "mokapot/parsers/pepxml.py"
P2T = "mokapot/parsers/pin_to_tsv.py"
PP = "mokapot/picked_protein.py"
CW = "mokapot/confidence_writer.py"
RO = "mokapot/brew_rollup.py"
MK = "mokapot/mokapot.py"

# ---- C01
m("c01-no-plus-one", "C01", "caught", Q, "        (cum_decoys + 1),", "        (cum_decoys),", "exh,random")
m("c01-tie-first", "C01", "caught", Q, "curr_fdr = fdr_group[np.argmax(n_group)]", "curr_fdr = fdr_group[np.argmin(n_group)]", "exh,random")
m("c01-sorted-order", "C01", "caught", Q, "    qvals = qvals[np.argsort(srt_idx)]\n", "", "exh,random")
m("c01-asc-flip-one", "C01", "caught", Q, "    if not desc:\n        unique_metric = np.flip(unique_metric)\n        indices = np.flip(indices)\n", "    if not desc:\n        unique_metric = np.flip(unique_metric)\n", "exh,random")
m("c01-labels-ge", "C01", "caught", DS, "unlabeled = np.logical_and(qvals > eval_fdr, targets)", "unlabeled = np.logical_and(qvals >= eval_fdr, targets)", "labels")
m("c01-decoys-zero", "C01", "caught", DS, "    new_labels[~targets] = -1\n    new_labels[unlabeled] = 0", "    new_labels[~targets] = 0\n    new_labels[unlabeled] = 0", "labels")
m("c01-float64-fdr", "C01", "silent", Q, "out=np.ones_like(cum_targets, dtype=np.float32),", "out=np.ones_like(cum_targets, dtype=np.float64),", "exh,random,labels")
# ---- C02
m("c02-model-shift", "C02", "caught", BR, "[[i] * len(idx) for i, idx in enumerate(test_fold_idx)]", "[[(i + 1) % len(test_fold_idx)] * len(idx) for i, idx in enumerate(test_fold_idx)]")
m("c02-train-on-all", "C02", "caught", BR, "            train_idx[file_idx] += list(set(range(k, ds)) - set(idx))", "            train_idx[file_idx] += list(set(range(k, ds)))")
m("c02-cap-from-all", "C02", "caught", BR, "                    train_idx[i] = rng.choice(\n                        train_idx[i], current_subset_max_train, replace=False\n                    )", "                    train_idx[i] = rng.choice(\n                        data_size[i], current_subset_max_train, replace=False\n                    )")
m("c02-split-by-row", "C02", "caught", DS, "        idx_split = idx_start_unique[\n            np.searchsorted(idx_start_unique, start_split_indices)\n        ]", "        idx_split = np.array(start_split_indices)")
m("c02-no-sort-models", "C02", "silent", BR, "    fitted.sort(key=lambda x: x[0].fold)", "    pass")
m("c02-other-hash", "C02", "silent", DS, "                str(tuple(x[:2])).encode()", "                (\"salt\" + str(tuple(x[:2]))).encode()")
# ---- C03
m("c03-asc-chunks", "C03", "caught", CF, "    chunk_metadata.sort_values(by=\"score\", ascending=False, inplace=True)", "    chunk_metadata.sort_values(by=\"score\", ascending=True, inplace=True)", "confidence")
m("c03-peptides-from-losers", "C03", "caught", CF, "                            if level == \"psms\":\n                                break\n                            continue", "                            continue", "confidence")
m("c03-swap-files", "C03", "caught", CW, "            data_out.append(data_chunk.loc[targets_chunk, out_columns])\n            if decoys:\n                data_out.append(data_chunk.loc[~targets_chunk, out_columns])", "            data_out.append(data_chunk.loc[~targets_chunk, out_columns])\n            if decoys:\n                data_out.append(data_chunk.loc[targets_chunk, out_columns])", "confidence")
m("c03-rollup-shared-seen", "C03", "caught", RO, "                if id not in seen:\n                    seen.add(id)\n                    temp_writers[level].append_data(line)", "                if id not in seen_entities[levels[0]]:\n                    seen.add(id)\n                    temp_writers[level].append_data(line)", "rollup_tool")
m("c03-merge-min", "C03", "caught", UT, "        if max_score is None or max_score < score:", "        if max_score is None or max_score > score:", "confidence")
m("c03-dedup-flag", "C03", "caught", CF, "            file_prefix,\n            deduplication,\n            max_workers,", "            file_prefix,\n            do_rollup,\n            max_workers,", "confidence")
m("c03-cli-skip-dedup", "C03", "caught", MK, "        deduplication=not config.skip_deduplication,\n", "", "cli")
m("c03-q-before-dedup", "C03", "caught", CF, "            self.qvals = qvalues.qvalues_from_scores(\n                self.scores, self.targets, qvalue_algorithm\n            )", "            self.qvals = qvalues.qvalues_from_scores(\n                np.r_[self.scores, self.scores[:3]], np.r_[self.targets, self.targets[:3]], qvalue_algorithm\n            )[: len(self.scores)]", "confidence")
# ---- C04
m("c04-no-plus-one", "C04", "caught", Q, "        (cum_decoys + 1),", "        (cum_decoys),")
m("c04-leak", "C04", "caught", BR, "            train_idx[file_idx] += list(set(range(k, ds)) - set(idx))", "            train_idx[file_idx] += list(set(range(k, ds)))")
# ---- C05
m("c05-predict-offset", "C05", "caught", TD, "            df.index = df.index + i * chunk_size", "            df.index = df.index + i * len(df)", "inproc")
m("c05-no-reindex", "C05", "caught", PIN, "        pd.concat(df_fold).reindex(orig_idx_fold)", "        pd.concat(df_fold)", "inproc")
m("c05-empty-fold-chunk", "C05", "caught", BR, "                if len(psm_slice) > 0\n", "", "inproc")
m("c05-per-chunk-only-dedup", "C05", "caught", CF, "                    if level != \"psms\" or deduplication:", "                    if level != \"psms\":", "inproc")
m("c05-glob-chunks", "C05", "silent", CF, "        for i in range(len(scores_slices))\n    ]\n    sorted_file_iterator", "        for i in range(len(scores_slices))\n    ][::-1][::-1]\n    sorted_file_iterator", "inproc")
# ---- C06
m("c06-no-clip", "C06", "silent", PEPS, "    peps = np.clip(peps, 0, 1)\n    return peps", "    return peps")
m("c06-asc-monotone", "C06", "caught", PEPS, "    pepEst = monotonize_nnls(pepEst, w=target_pdf, ascending=False)", "    pepEst = monotonize_nnls(pepEst, w=target_pdf, ascending=True)")
m("c06-qvality-sorted", "C06", "caught", PEPS, "    peps_in_input_order[np.argsort(-scores, kind=\"stable\")] = peps", "    peps_in_input_order[:] = peps")
m("c06-from-counts-unsorted-interp", "C06", "caught", Q, "    qvalues = np.interp(\n        scores, np.flip(scores_sorted), np.flip(qvalues_sorted)\n    )\n    return qvalues\n", "    qvalues = qvalues_sorted\n    return qvalues\n")
# ---- C07
m("c07-ge", "C07", "caught", BR, "    if feat_total > pred_total:", "    if feat_total > pred_total * 2:", "safety")
m("c07-min-feat", "C07", "caught", BR, "        best_feat_idx, feat_total = max(\n            enumerate(map(itemgetter(1), best_feats)), key=itemgetter(1)\n        )", "        best_feat_idx, feat_total = min(\n            enumerate(map(itemgetter(1), best_feats)), key=itemgetter(1)\n        )", "safety")
m("c07-descs-true", "C07", "caught", BR, "        descs = [desc] * len(psms)", "        descs = [True] * len(psms)", "safety")
m("c07-labels-unconverted", "C07", "caught", DS, "    df = utils.convert_targets_column(df, target_column)\n    return _update_labels(\n        scores=scores,\n        targets=df[target_column],\n        eval_fdr=eval_fdr,\n        desc=desc,\n    )\n", "    return _update_labels(\n        scores=scores,\n        targets=df[target_column],\n        eval_fdr=eval_fdr,\n        desc=desc,\n    )\n", "safety")
m("c07-best-feat-first-dir", "C07", "caught", DS, "            if num_passing > best_positives:\n                best_positives = num_passing\n                best_feat = feat_idx\n                new_labels = self._update_labels(", "            if num_passing > best_positives and desc:\n                best_positives = num_passing\n                best_feat = feat_idx\n                new_labels = self._update_labels(", "safety")
# ---- C08
m("c08-unsorted-match", "C08", "caught", PP, "decoys, pd.Series(sorted(proteins.peptide_map.keys()))", "decoys, pd.Series(list(proteins.peptide_map.keys()))")
m("c08-sample-unseeded", "C08", "caught", UT, "        df.sample(frac=1, random_state=rng)", "        df.sample(frac=1)")
m("c08-match-decoy-global-rng", "C08", "caught", "mokapot/peptides.py", "    targets = targets.sample(frac=1, random_state=rng).reset_index(drop=True)", "    targets = targets.sample(frac=1).reset_index(drop=True)", "repeat")
m("c08-model-order", "C08", "caught", BR, "    fitted.sort(key=lambda x: x[0].fold)", "    pass", "cli")
# ---- C09
m("c09-glob", "C09", "caught", CF, "    scores_metadata_paths = [\n        dest_dir / f\"{file_prefix}scores_metadata_{i}{outfile_ext}\"\n        for i in range(len(scores_slices))\n    ]", "    scores_metadata_paths = list(\n        dest_dir.glob(f\"{file_prefix}scores_metadata_*\")\n    )")
m("c09-tsv-append", "C09", "caught", MK, "                    with open(path_tsv, 'w') as f_tsv:", "                    with open(path_tsv, 'a') as f_tsv:", "cli_tsv")
m("c09-no-initialize", "C09", "inconclusive", CF, "            for writer in handles.values():\n                writer.initialize()\n", "            for writer in handles.values():\n                pass\n")
m("c09-no-level-unlink", "C09", "caught", CF, "                [os.unlink(path) for path in out_path]\n            os.unlink(data_path)", "                [os.unlink(path) for path in out_path]")
m("c09-result-append", "C09", "caught", CF, "            if not append_to_output_file:\n                writer.initialize()\n            out_files[level] = [outfile_targets]", "            out_files[level] = [outfile_targets]")
# ---- C10
m("c10-ident-split", "C10", "caught", PIN, "    chunks = create_chunks(data, chunk_size)\n    if chunks and len(chunks[-1]) + len(identifier_column) <= chunk_size:\n        # the identifier columns fit completely into the last chunk\n        chunks[-1] = chunks[-1] + identifier_column\n    else:\n        chunks.append(identifier_column)\n    return chunks", "    return create_chunks(data + identifier_column, chunk_size)")
m("c10-nan-first-chunk", "C10", "caught", PIN, "        na_mask = pd.concat(\n            [na_mask, pd.DataFrame([feature.isna().any(axis=0)])],\n            ignore_index=True,\n        )", "        if i == 0:\n            na_mask = pd.concat(\n                [na_mask, pd.DataFrame([feature.isna().any(axis=0)])],\n                ignore_index=True,\n            )")
m("c10-label-ge0", "C10", "caught", UT, "    data[target_column] = labels == 1", "    data[target_column] = labels >= 0")
m("c10-case-sensitive", "C10", "caught", "mokapot/parsers/helpers.py", "        col, columns, required=True, unique=True, ignore_case=True\n    )", "        col, columns, required=True, unique=True, ignore_case=False\n    )")
m("c10-label-range", "C10", "caught", UT, "    if any(labels < -1) or any(labels > 1):", "    if any(labels < -2) or any(labels > 2):", "reject")
# ---- C11
m("c11-max-anchor", "C11", "caught", DS, "    target_score = np.min(scores[pos])\n    decoy_score = np.median(scores[labels == -1])\n\n    return (scores - target_score) / (target_score - decoy_score)\n\n\n@typechecked", "    target_score = np.max(scores[pos])\n    decoy_score = np.median(scores[labels == -1])\n\n    return (scores - target_score) / (target_score - decoy_score)\n\n\n@typechecked")
m("c11-median-all", "C11", "caught", DS, "    decoy_score = np.median(scores[labels == -1])\n\n    return (scores - target_score) / (target_score - decoy_score)\n\n\n@typechecked", "    decoy_score = np.median(scores)\n\n    return (scores - target_score) / (target_score - decoy_score)\n\n\n@typechecked")
m("c11-sign", "C11", "caught", DS, "    return (scores - target_score) / (target_score - decoy_score)\n\n\n@typechecked", "    return (scores - target_score) / (decoy_score - target_score)\n\n\n@typechecked")
m("c11-swallow-no-target", "C11", "caught", BR, "            except RuntimeError:\n                raise RuntimeError(", "            except RuntimeError:\n                scores.append(np.zeros(0))\n                continue\n                raise RuntimeError(")
# ---- C12
m("c12-no-unshuffle", "C12", "caught", MD, "            scores = scores[original_idx]\n", "")
m("c12-no-reshuffle", "C12", "caught", MD, "            target = target[shuffled_idx]\n", "")
m("c12-noshuffle-bug", "C12", "caught", MD, "        else:\n            # keep the original order: the index bookkeeping below must then\n            # be the identity\n            shuffled_idx = original_idx = np.arange(len(start_labels))\n", "")
m("c12-features-by-position", "C12", "caught", MD, "            psms.features.loc[:, self.features].values", "            psms.features.values")
m("c12-eval-fdr-labels", "C12", "caught", MD, "            target = psms._update_labels(scores, eval_fdr=self.train_fdr)\n            target = target[shuffled_idx]", "            target = psms._update_labels(scores, eval_fdr=self.train_fdr / 5)\n            target = target[shuffled_idx]")
# ---- C13
m("c13-buffer-gt", "C13", "silent", TD, "        while len(self.buffer) >= self.buffer_size:", "        while len(self.buffer) > self.buffer_size + 1:", "writers")
m("c13-force-flush", "C13", "caught", TD, "        if force and len(self.buffer) > 0:", "        if force and len(self.buffer) > 1:", "writers")
m("c13-index-offset", "C13", "caught", TD, "            df.index = df.index + i * chunk_size", "            df.index = df.index + i * len(df)", "readers")
m("c13-range-minus-one", "C13", "caught", TD, "        for pos in range(0, len(self.df), chunk_size):", "        for pos in range(0, len(self.df) - 1, chunk_size):", "readers")
m("c13-joined-empty", "C13", "caught", ST, "            if subset_columns is None or len(subset_columns) > 0\n", "            if True\n", "readers")
# ---- C14
m("c14-dup-emission", "C14", "caught", UT, "        del current_row_dict[max_key]\n        del row_iterator_dict[max_key]", "        del row_iterator_dict[max_key]")
m("c14-le", "C14", "silent", UT, "        if max_score is None or max_score < score:", "        if max_score is None or max_score <= score:")
m("c14-wrong-reader-check", "C14", "caught", ST, "                if self.descending and new_value > values[iterator_index]:", "                if self.descending and new_value > values[0]:")
m("c14-drop-last", "C14", "caught", ST, "            except StopIteration:\n                del row_iterators[iterator_index]\n                del current_rows[iterator_index]\n                del values[iterator_index]", "            except StopIteration:\n                del row_iterators[iterator_index]\n                del current_rows[iterator_index]\n                del values[iterator_index]\n                if len(row_iterators) == 1:\n                    break")
# ---- C15
m("c15-first-member-key", "C15", "caught", PP, "            sorted(proteins.protein_map.get(x, x) for x in group.split(\", \"))", "            [proteins.protein_map.get(x, x) for x in group.split(\", \")][:1]")
m("c15-keep-first", "C15", "caught", UT, "        .drop_duplicates(list(by_cols), keep=\"last\")", "        .drop_duplicates(list(by_cols), keep=\"first\")")
m("c15-greedy-mods", "C15", "caught", PP, "sequences.str.replace(r\"[\\[\\(].*?[\\]\\)]\", \"\", regex=True)", "sequences.str.replace(r\"[\\[\\(].*[\\]\\)]\", \"\", regex=True)")
m("c15-shared-to-first", "C15", "caught", PP, "    return peptides[\"stripped sequence\"].map(proteins.peptide_map.get)", "    return peptides[\"stripped sequence\"].map(lambda p: proteins.peptide_map.get(p) or (proteins.shared_peptides.get(p, \"\").split(\"; \")[0] or None))")
# ---- C16
m("c16-union", "C16", "caught", FA, "        matches = set.intersection(*[peptides[p] for p in peps])", "        matches = set.union(*[peptides[p] for p in peps])")
m("c16-keep-prot", "C16", "caught", FA, "                if prot in peptides[pep]:\n                    peptides[pep].remove(prot)", "                pass")
m("c16-smallest-first", "C16", "caught", FA, "key=lambda x: -len(x[1])):", "key=lambda x: len(x[1])):")
m("c16-first-match-only", "C16", "caught", FA, "        for match in matches:\n            new_prot", "        for match in matches[:1]:\n            new_prot")
# ---- C17
m("c17-mc-range", "C17", "caught", FA, "        for diff_idx in range(1, missed_cleavages + 2):", "        for diff_idx in range(1, missed_cleavages + 1):")
m("c17-len-bound", "C17", "caught", FA, "            if len(peptide) < min_length or len(peptide) > max_length:", "            if len(peptide) <= min_length or len(peptide) > max_length:")
m("c17-clip-everywhere", "C17", "caught", FA, "            if clip_nterm_met and not start_idx and peptide.startswith(\"M\"):", "            if clip_nterm_met and peptide.startswith(\"M\"):")
m("c17-semi-continue", "C17", "silent", FA, "                    if sub_pep_len < min_length:\n                        break", "                    if sub_pep_len < min_length:\n                        continue")
m("c17-no-end-site", "C17", "caught", FA, "        + [m.end() for m in enzyme_regex.finditer(sequence)]\n        + [len(sequence)]\n    )", "        + [m.end() for m in enzyme_regex.finditer(sequence)]\n    )")
# ---- C18
m("c18-start", "C18", "caught", FA, "            start = cleavage_site + 1", "            start = cleavage_site")
m("c18-end", "C18", "caught", FA, "            end = sites[end_idx] - 1", "            end = sites[end_idx]")
m("c18-wrap-drop", "C18", "caught", FA, "        seq = \"\\n\".join(wrap(seq))", "        seq = \"\\n\".join(wrap(seq, width=60, max_lines=5, placeholder=\"\"))")
m("c18-decoys-first", "C18", "caught", FA, "        proteins += decoys", "        proteins = decoys + proteins")
# ---- C19
m("c19-prot-end", "C19", "caught", P2T, "    idx_prot_end = idx_protein_col + n_proteins + 1", "    idx_prot_end = idx_protein_col + n_proteins")
m("c19-direction-line", "C19", "caught", P2T, "    if not second_line.startswith(\"DefaultDirection\"):", "    if not header.startswith(\"DefaultDirection\"):")
m("c19-valid-lt", "C19", "caught", P2T, "    for line in f_in:\n        n_col = len(line.split(sep_column))\n        if n_col != n_col_header:", "    for line in f_in:\n        n_col = len(line.split(sep_column))\n        if n_col < n_col_header:")
# ---- C20
m("c20-offset", "C20", "caught", PX, "                offset += 2 + len(mass)", "                offset += 1 + len(mass)")
m("c20-label-any", "C20", "caught", PX, "            if not psm[\"label\"]:", "            if psm[\"label\"]:")
m("c20-mod-before", "C20", "caught", PX, "                mod_pep = mod_pep[:idx] + \"[\" + mass + \"]\" + mod_pep[idx:]", "                mod_pep = mod_pep[:idx - 1] + \"[\" + mass + \"]\" + mod_pep[idx - 1:]")
m("c20-first-result-only", "C20", "caught", PX, "    for psms in spectrum.iter(\"{*}search_result\"):\n        for psm in psms.iter(\"{*}search_hit\"):\n            yield", "    for psms in list(spectrum.iter(\"{*}search_result\"))[:1]:\n        for psm in psms.iter(\"{*}search_hit\"):\n            yield")
m("c20-primary-only-label", "C20", "caught", PX, "            if not psm[\"label\"]:\n                psm[\"label\"] = not psm[\"proteins\"][-1].startswith(decoy_prefix)", "            pass")


def run_one(mu, tests=False):
    wt = tempfile.mkdtemp(prefix="mokapot-mut-", dir="/tmp")
    os.rmdir(wt)
    out = tempfile.mkdtemp(prefix="vf-mut-out-", dir="/tmp")
    res = dict(id=mu["id"], prop=mu["prop"], expected=mu["expected"])
    try:
        subprocess.run(["git", "-C", "/repo", "worktree", "add", "--detach", wt, "HEAD"], check=True, capture_output=True)
        p = os.path.join(wt, mu["path"])
        txt = open(p).read()
        if txt.count(mu["old"]) != 1:
            res["verdict"] = f"NOT-APPLIED ({txt.count(mu['old'])} matches)"
            return res
        open(p, "w").write(txt.replace(mu["old"], mu["new"]))
        if tests:
            t = subprocess.run(["python3", os.path.join(HERE, "tools", "baseline.py"), wt], capture_output=True, text=True)
            res["tests"] = t.stdout.strip().splitlines()[0] if t.stdout else "?"
            res["tests_ok"] = t.returncode == 0
        env = {**os.environ, "MOKAPOT_REPO": wt, "VERIF_OUT": out, "VERIF_JOBS": "8"}
        cmd = [os.path.join(HERE, "check"), mu["prop"], "quick"]
        if mu.get("classes"):
            cmd += ["--classes", mu["classes"]]
        c = subprocess.run(cmd, env=env, capture_output=True, text=True)
        res["rc"] = c.returncode
        res["verdict"] = {0: "silent", 1: "caught", 2: "inconclusive"}.get(c.returncode, f"rc={c.returncode}")
        v = [l.strip() for l in c.stdout.splitlines() if l.startswith("  violation")]
        res["first_violation"] = v[0][:300] if v else ""
    finally:
        subprocess.run(["git", "-C", "/repo", "worktree", "remove", "--force", wt], capture_output=True)
        subprocess.run(["rm", "-rf", wt, out])
    return res


if __name__ == "__main__":
    ap = argparse.ArgumentParser()
    ap.add_argument("--only")
    ap.add_argument("--ids")
    ap.add_argument("--jobs", type=int, default=2)
    ap.add_argument("--tests", action="store_true")
    a = ap.parse_args()
    sel = M
    if a.only:
        sel = [x for x in sel if x["prop"] in a.only.split(",")]
    if a.ids:
        sel = [x for x in sel if x["id"] in a.ids.split(",")]
    results = []
    with ThreadPoolExecutor(max_workers=a.jobs) as ex:
        for r in ex.map(lambda mu: run_one(mu, a.tests), sel):
            ok = r.get("verdict") == r["expected"]
            print(f"{r['id']:34s} {r['prop']} expected={r['expected']:7s} got={r.get('verdict')} {'' if ok else '  <<<<<<'} {r.get('tests','')}", flush=True)
            results.append(r)
    path = os.path.join(HERE, "mutants_results.json")
    old = {}
    if os.path.exists(path):
        old = {r["id"]: r for r in json.load(open(path))}
    for r in results:
        old[r["id"]] = r
    json.dump(sorted(old.values(), key=lambda r: r["id"]), open(path, "w"), indent=1)
