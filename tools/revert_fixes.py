#!/usr/bin/env python3
"""For every `fix:` commit in /repo: revert it in a scratch worktree of HEAD and run the owning quick check
(it must report the original violation again). Writes revert_results.json."""
import json, os, re, subprocess, sys, tempfile, shutil
HERE = os.path.dirname(os.path.dirname(os.path.abspath(__file__)))
kf = json.load(open(os.path.join(HERE, "known_findings.json")))
fixed = []
for line in kf["fixed"]:
    m = re.match(r"fixed: property=(C\d+) ([0-9a-f]{7,}) (.*)", line)
    if m:
        fixed.append(m.groups())
only = set(sys.argv[1:])   # optional: commit prefixes to re-validate (results merged into revert_results.json)
if only:
    fixed = [f for f in fixed if any(f[1].startswith(o) for o in only)]
# a later fix touched the same lines: the revert conflicts; the catalogue holds a change that undoes exactly that fix
EQUIVALENT_MUTANT = {"fb2b570": "c08-unsorted-match", "ac2e788": "c15-first-member-key", "ce05c05": "c08-match-decoy-global-rng"}
# checks that own the fix (a fix may be found by a workload of another property)
owner_override = {}
classes = {"C01": None}
out = []
for prop, commit, what in fixed:
    wt = tempfile.mkdtemp(prefix="revert-", dir="/tmp"); os.rmdir(wt)
    od = tempfile.mkdtemp(prefix="revert-out-", dir="/tmp")
    subprocess.run(["git", "-C", "/repo", "worktree", "add", "--detach", wt, "HEAD"], check=True, capture_output=True)
    try:
        r = subprocess.run(["git", "-C", wt, "revert", "-n", "--no-edit", commit], capture_output=True, text=True)
        if r.returncode != 0:
            eq = EQUIVALENT_MUTANT.get(commit)
            verdict = "REVERT-CONFLICT"
            if eq:
                m = subprocess.run(["python3", os.path.join(HERE, "tools", "mutants.py"), "--ids", eq], capture_output=True, text=True)
                verdict = {prop: "caught" if "got=caught" in m.stdout else "silent"}
            out.append(dict(prop=prop, commit=commit, what=what[:80], verdict=verdict, note=f"git revert conflicts with a later fix; undone through catalogue change {eq}" if eq else "conflict"))
            print(prop, commit, verdict, "(via", eq, ")"); continue
        props = [prop] + ({"C05": ["C08"]}.get(prop, []) if "Parquet input" in what else [])
        res = {}
        for p in props:
            c = subprocess.run([os.path.join(HERE, "check"), p, "quick"], env={**os.environ, "MOKAPOT_REPO": wt, "VERIF_OUT": od},
                               capture_output=True, text=True)
            v = [l.strip()[:200] for l in c.stdout.splitlines() if l.startswith("  violation")]
            res[p] = {0: "silent", 1: "caught", 2: "inconclusive"}.get(c.returncode, str(c.returncode))
            first = v[0] if v else ""
        out.append(dict(prop=prop, commit=commit, what=what[:100], verdict=res, first=first))
        print(prop, commit, res, first[:120], flush=True)
    finally:
        subprocess.run(["git", "-C", "/repo", "worktree", "remove", "--force", wt], capture_output=True)
        shutil.rmtree(wt, ignore_errors=True); shutil.rmtree(od, ignore_errors=True)
path = os.path.join(HERE, "revert_results.json")
if only and os.path.exists(path):
    old = [o for o in json.load(open(path)) if not any(o["commit"].startswith(x) for x in only)]
    out = old + out
json.dump(out, open(path, "w"), indent=1)
