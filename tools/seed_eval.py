#!/usr/bin/env python3
"""Confirm an independently written property-breaking change and run our checks against it.

usage: tools/seed_eval.py <PROP> <suffix> [--tier quick|thorough] [--props C03,C05] [--keep-only-if-confirmed]

Input: /tmp/seedwork/<PROP>-<suffix>-out/{patch.diff,demo.py,meta.json}
Steps (all in a fresh scratch worktree of /repo HEAD under /tmp, removed afterwards):
  demo on the unmodified tree (must exit 0) ; apply patch ; demo (must exit 1) ; pinned suite
  (no baseline test may fail) ; ./check for the property (MOKAPOT_REPO=worktree).
Confirmed changes are stored as /verif/seeded/<PROP>-<suffix>/ with what was run.
"""
import argparse
import json
import os
import shutil
import subprocess
import sys
import tempfile

HERE = os.path.dirname(os.path.dirname(os.path.abspath(__file__)))
ap = argparse.ArgumentParser()
ap.add_argument("prop")
ap.add_argument("suffix")
ap.add_argument("--tier", default="quick")
ap.add_argument("--props", default=None, help="comma list of checks to run (default: the property itself)")
ap.add_argument("--no-store", action="store_true")
a = ap.parse_args()

src = f"/tmp/seedwork/{a.prop}-{a.suffix}-out"
patch = os.path.join(src, "patch.diff")
demo = os.path.join(src, "demo.py")
meta = json.load(open(os.path.join(src, "meta.json"))) if os.path.exists(os.path.join(src, "meta.json")) else {}
wt = tempfile.mkdtemp(prefix="seedeval-", dir="/tmp")
os.rmdir(wt)
out = tempfile.mkdtemp(prefix="seedeval-out-", dir="/tmp")
report = {"property": a.prop, "suffix": a.suffix}
subprocess.run(["git", "-C", "/repo", "worktree", "add", "--detach", wt, "HEAD"], check=True, capture_output=True)
try:
    env = {k: v for k, v in os.environ.items() if not k.startswith("MOKAPOT_")}

    def run_demo():
        p = subprocess.run(["/venv/bin/python", "-W", "ignore", demo], cwd=wt, env=env, capture_output=True, text=True, timeout=600)
        return p.returncode, (p.stdout + p.stderr)[-1500:]
    rc0, o0 = run_demo()
    report["demo_unmodified"] = rc0
    ap_ = subprocess.run(["git", "-C", wt, "apply", patch], capture_output=True, text=True)
    report["patch_applies"] = ap_.returncode == 0
    if ap_.returncode != 0:
        report["apply_error"] = ap_.stderr[-500:]
    else:
        rc1, o1 = run_demo()
        report["demo_modified"] = rc1
        report["demo_modified_tail"] = o1[-600:]
        t = subprocess.run(["python3", os.path.join(HERE, "tools", "baseline.py"), wt], capture_output=True, text=True)
        report["suite"] = t.stdout.strip().splitlines()[0] if t.stdout else "?"
        report["suite_ok"] = t.returncode == 0
        report["checks"] = {}
        for prop in (a.props.split(",") if a.props else [a.prop]):
            c = subprocess.run([os.path.join(HERE, "check"), prop, a.tier],
                               env={**os.environ, "MOKAPOT_REPO": wt, "VERIF_OUT": out}, capture_output=True, text=True)
            v = [l.strip()[:400] for l in c.stdout.splitlines() if l.startswith("  violation")]
            report["checks"][f"{prop}:{a.tier}"] = {"rc": c.returncode,
                                                   "verdict": {0: "MISSED", 1: "CAUGHT", 2: "INCONCLUSIVE"}.get(c.returncode, str(c.returncode)),
                                                   "first_violation": v[0] if v else "", "tail": c.stdout.strip().splitlines()[-1:][0][:300] if c.stdout.strip() else ""}
    report["confirmed"] = bool(report.get("demo_unmodified") == 0 and report.get("demo_modified") == 1 and report.get("suite_ok"))
finally:
    subprocess.run(["git", "-C", "/repo", "worktree", "remove", "--force", wt], capture_output=True)
    shutil.rmtree(wt, ignore_errors=True)
    shutil.rmtree(out, ignore_errors=True)
print(json.dumps(report, indent=1))
if report.get("confirmed") and not a.no_store:
    dst = os.path.join(HERE, "seeded", f"{a.prop}-{a.suffix}")
    os.makedirs(dst, exist_ok=True)
    shutil.copy(patch, os.path.join(dst, "patch.diff"))
    shutil.copy(demo, os.path.join(dst, "demo.py"))
    mpath = os.path.join(dst, "meta.json")
    old = json.load(open(mpath)) if os.path.exists(mpath) else {}
    ran = old.get("what_was_run", {})
    ran.update(report.get("checks", {}))
    json.dump({"property": a.prop, "breaks": meta.get("summary"), "needs": meta.get("needs"),
               "files_changed": meta.get("files_changed"), "author": "independent sub-agent given only the property text",
               "confirmed": {"demo_exit_unmodified": report["demo_unmodified"], "demo_exit_modified": report["demo_modified"],
                             "pinned_suite": report["suite"]},
               "what_was_run": ran}, open(mpath, "w"), indent=1)
