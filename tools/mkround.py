#!/usr/bin/env python3
"""Create scratch worktrees and prompts for a round of independently written property-breaking changes.
usage: mkround.py <suffix> <guidance-file> [props...]"""
import json, os, re, subprocess, sys
suffix, gfile = sys.argv[1], sys.argv[2]
props = sys.argv[3:] or [f"C{i:02d}" for i in range(1, 21)]
guidance = open(gfile).read().strip()
template = open("/verif/tools/seed_prompt_example.txt").read()
# derive a template by parameterising the C01-d prompt
head, rest = template.split("The property you are concerned with", 1)
tail = rest[rest.index("YOUR TASK:"):]
tail = tail[:tail.index("ADDITIONAL GUIDANCE FOR THIS ROUND:")] + "ADDITIONAL GUIDANCE FOR THIS ROUND: " + guidance + "\n\n" + tail[tail.index("Then write these files:"):]
P = {json.loads(l)["id"]: json.loads(l) for l in open("/verif/properties.jsonl")}
for pid in props:
    p = P[pid]
    wt = f"/tmp/seedwork/{pid}-{suffix}"
    out = f"{wt}-out"
    os.makedirs(out, exist_ok=True)
    if not os.path.exists(wt):
        subprocess.run(["git", "-C", "/repo", "worktree", "add", "--detach", wt, "HEAD"], check=True, capture_output=True)
    prop_txt = (f"Property {pid}: {p['title']}\n\nStatement: {p['statement']}\n\nQuantified over: {p['quantifier']['text']}\n\n"
                f"Why the existing tests cannot settle it: {p['why_tests_cant']}\n\nCode involved: {', '.join(p['anchors']['files'])}\n")
    open(f"{out}/PROPERTY.txt", "w").write(prop_txt)
    h = head.replace("C01-d", f"{pid}-{suffix}")
    t = tail.replace("C01-d", f"{pid}-{suffix}").replace('property ("C01")', f'property ("{pid}")')
    open(f"{out}/PROMPT.txt", "w").write(h + f"The property you are concerned with (also in {out}/PROPERTY.txt):\n\n" + prop_txt + "\n\n" + t)
    print(pid, wt)
