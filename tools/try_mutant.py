#!/usr/bin/env python3
"""Run checks against a scratch worktree of /repo with a change applied.

usage: try_mutant.py [--patch file.diff | --sed 'path@@@old@@@new'] [--tier quick] [--tests] PROP [PROP...]

The worktree lives under /tmp, is selected through MOKAPOT_REPO (never /repo
itself), evidence goes to a scratch VERIF_OUT, and everything is removed at the
end. Prints one line per property: CAUGHT / MISSED / INCONCLUSIVE.
"""
import argparse
import os
import shutil
import subprocess
import sys
import tempfile

ap = argparse.ArgumentParser()
ap.add_argument("--patch")
ap.add_argument("--sed", action="append", default=[])
ap.add_argument("--tier", default="quick")
ap.add_argument("--tests", action="store_true", help="also run the pinned test-suite on the mutant")
ap.add_argument("--classes")
ap.add_argument("--keep", action="store_true")
ap.add_argument("props", nargs="*")
a = ap.parse_args()

wt = tempfile.mkdtemp(prefix="mokapot-mut-", dir="/tmp")
os.rmdir(wt)
out = tempfile.mkdtemp(prefix="vf-mut-out-", dir="/tmp")
subprocess.run(["git", "-C", "/repo", "worktree", "add", "--detach", wt, "HEAD"], check=True,
               capture_output=True)
rc = 0
try:
    if a.patch:
        subprocess.run(["git", "-C", wt, "apply", os.path.abspath(a.patch)], check=True)
    for s in a.sed:
        path, old, new = s.split("@@@")
        p = os.path.join(wt, path)
        txt = open(p).read()
        if txt.count(old) != 1:
            print(f"sed target occurs {txt.count(old)} times in {path}", file=sys.stderr)
            sys.exit(3)
        open(p, "w").write(txt.replace(old, new))
    print(subprocess.run(["git", "-C", wt, "diff", "--stat"], capture_output=True, text=True).stdout)
    if a.tests:
        # data files needed by the suite are identical in the worktree (tracked)
        p = subprocess.run(
            ["/venv/bin/python", "-m", "pytest", "-q", "-x", "-p", "no:cacheprovider", "--timeout=900",
             "-q", "--no-header", "-rN", "tests"],
            cwd=wt, capture_output=True, text=True, env={**os.environ, "PYTHONPATH": wt})
        tail = p.stdout.strip().splitlines()[-1:] if p.stdout else []
        print("pytest:", tail)
    env = {**os.environ, "MOKAPOT_REPO": wt, "VERIF_OUT": out}
    for prop in a.props:
        cmd = ["/verif/check", prop, a.tier]
        if a.classes:
            cmd += ["--classes", a.classes]
        p = subprocess.run(cmd, env=env, capture_output=True, text=True)
        verdict = {0: "MISSED", 1: "CAUGHT", 2: "INCONCLUSIVE"}.get(p.returncode, f"rc={p.returncode}")
        lines = [l for l in p.stdout.splitlines() if l.startswith(("  violation", "VIOLATION", "INCONCLUSIVE", "KNOWN"))][:4]
        print(f"{prop}: {verdict}")
        for l in lines:
            print("   ", l[:400])
        if p.returncode not in (0, 1):
            print(p.stdout[-1500:], p.stderr[-1500:])
finally:
    if not a.keep:
        subprocess.run(["git", "-C", "/repo", "worktree", "remove", "--force", wt], capture_output=True)
        shutil.rmtree(wt, ignore_errors=True)
        shutil.rmtree(out, ignore_errors=True)
    else:
        print("kept", wt, out)
