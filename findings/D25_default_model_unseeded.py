"""D25 witness: brew(psms, rng=seed) with the default model builds PercolatorModel() without the seed: its
hyper-parameter search draws cross-validation splits from OS entropy, so two identical calls can train different
models. Exit 1 = different results for identical calls."""
import sys, hashlib
sys.path.insert(0, sys.argv[1] if len(sys.argv) > 1 else "/repo")
sys.path.insert(0, "/verif")
import numpy as np
import mokapot
from vf import core
from vf.gens import psm
import tempfile, pathlib
d = pathlib.Path(tempfile.mkdtemp())
rng = np.random.default_rng(5)
tab = psm.psm_table(rng, n_spectra=1500, mult_max=2, key_cols=("ExpMass",), sep_strength=3.0, pi1=0.5, n_info=3, n_noise=6, with_rid=False)
p = psm.write_pin(tab, d / "t.pin")
seen = set()
for i in range(6):
    ds = mokapot.read_pin([p], max_workers=1)
    out = mokapot.brew(ds, rng=7, folds=3, max_workers=1, test_fdr=0.1)
    s = np.asarray(out[2][0], dtype=float)
    coefs = [np.asarray(m.estimator.coef_).round(12).tobytes() for m in out[1]]
    params = [getattr(m.estimator, "class_weight", None) for m in out[1]]
    seen.add(hashlib.sha256(s.tobytes()).hexdigest()[:10])
    print(i, hashlib.sha256(s.tobytes()).hexdigest()[:10], params)
print(len(seen), "distinct score vectors for identical calls")
sys.exit(1 if len(seen) > 1 else 0)
