"""D22 witness: read_pin() documents 'str, tuple of str' for pin_files, but a str path raised
typeguard.TypeCheckError in TabularDataReader.from_path (before fix 867c4a4). Exit 1 = defect present."""
import sys, tempfile, os
sys.path.insert(0, sys.argv[1] if len(sys.argv) > 1 else "/repo")
import mokapot
d = tempfile.mkdtemp()
p = os.path.join(d, "t.pin")
open(p, "w").write("SpecId\tLabel\tScanNr\tf1\tPeptide\tProteins\n" + "".join(f"s{i}\t{1 if i % 2 else -1}\t{i}\t{i * 0.5}\tPEP{i}K\tp\n" for i in range(20)))
try:
    ds = mokapot.read_pin(p, max_workers=1)
    print("ok", len(ds))
    sys.exit(0)
except Exception as e:  # noqa: BLE001
    print(type(e).__name__, str(e)[:200])
    sys.exit(1)
