"""D23 witness: `python -m mokapot.parsers.pin_to_tsv in.pin out.tsv` opened out.tsv in append mode: an output file
left by an earlier conversion is kept and the new table appended after it. Exit 1 = defect present."""
import sys, tempfile, os
sys.path.insert(0, sys.argv[1] if len(sys.argv) > 1 else "/repo")
from mokapot.parsers import pin_to_tsv as m
d = tempfile.mkdtemp()
src, dst = os.path.join(d, "in.pin"), os.path.join(d, "out.tsv")
open(src, "w").write("SpecId\tLabel\tScanNr\tf\tPeptide\tProteins\ns1\t1\t5\t0.5\tPEPK\tA\tB\ns2\t-1\t6\t0.1\tKPEP\tC\n")
open(dst, "w").write("stale\tcontent\n")
sys.argv = ["pin_to_tsv", src, dst]
m.main()
out = open(dst).read()
print(out)
sys.exit(1 if out.startswith("stale") else 0)
