"""D21 witness: with a target-only FASTA the decoy->target protein matching draws from numpy's
global generator, so assign_confidence(rng=seed) repeated in one process gives different protein groups."""
import sys, numpy as np, pandas as pd
sys.path.insert(0, sys.argv[1] if len(sys.argv) > 1 else "/repo")
import mokapot
from mokapot.picked_protein import picked_protein
fa = "t.fasta"
# two proteins with anagram peptides (same composition) -> a decoy peptide of that composition matches either
open(fa, "w").write(">P1\nMAAAK" + "ACDEFGHIK" + "LLLLLLK\n>P2\nMCCCK" + "DCAEFGHIK" + "SSSSSSSK\n>P3\nMDDDK"+"EDCAFGHIK"+"TTTTTTTK\n")
prot = mokapot.read_fasta(fa, missed_cleavages=0, min_length=6, decoy_prefix="decoy_")
assert not prot.has_decoys
pep = pd.DataFrame({"t": [True, True, True, False], "pep": ["ACDEFGHIK", "DCAEFGHIK", "EDCAFGHIK", "AGFEDCHIK"], "score": [3.0, 2.0, 1.5, 2.5]})
seen = set()
for i in range(12):
    out = picked_protein(pep.copy(), "t", "pep", "score", prot, rng=1)
    seen.add(tuple(out["mokapot protein group"]))
print(len(seen), "distinct outcomes for the same call with rng=1:", seen)
sys.exit(1 if len(seen) > 1 else 0)
