"""D24 witness: target-only FASTA - a decoy peptide that matches no unique target peptide (here: the mirror of a peptide
shared by two proteins) is kept with a missing protein group and appears as a protein-level entry of its own, for a
pair that does not exist. Exit 1 = defect present."""
import sys, pandas as pd
sys.path.insert(0, sys.argv[1] if len(sys.argv) > 1 else "/repo")
import mokapot
from mokapot.picked_protein import picked_protein
open("t.fasta", "w").write(">P1\nMAAAK" + "ACDEFGHIK" + "LLLLLLK\n>P2\nMCCCK" + "ACDEFGHIK" + "SSSSSSSK\n")
prot = mokapot.read_fasta("t.fasta", missed_cleavages=0, min_length=6, decoy_prefix="decoy_")
assert "ACDEFGHIK" in prot.shared_peptides
pep = pd.DataFrame({"t": [True, True, False, False], "pep": ["LLLLLLK", "SSSSSSSK", "LLLLLKL"[::-1], "AIHGFEDCK"], "score": [3.0, 2.0, 1.0, 2.5]})
out = picked_protein(pep, "t", "pep", "score", prot, rng=1)
print(out[["mokapot protein group", "pep" if "pep" in out else "best peptide", "score", "t"]])
bad = out["mokapot protein group"].isna().sum()
print("entries without a protein group:", int(bad))
sys.exit(1 if bad else 0)
