"""F3 witness (known finding C04-label-sorted-file-ties): run as `PYTHONPATH=/verif /venv/bin/python findings/F3_label_sorted_ties.py`.
For label-sorted input (all targets first), coarse tied scores and the confidence stage in two chunks the mean FDP
exceeds alpha by > 10 standard errors; with one chunk or shuffled rows it does not."""
import sys
sys.path.insert(0, "/verif")
import numpy as np, pandas as pd
from vf import core
from vf.gens import psm
from vf.instruments import pipeline
from vf.props import c04
A = c04.ALPHAS_COARSE
for order, chunked in (("targets_first", True), ("targets_first", False), ("shuffled", True)):
  for L, g, pi1 in ((1, 0.75, 0.15), (1, 1.5, 0.4), (2, 0.75, 0.15)):
    rng = core.seed_seq(1, "tieorder2", order, L)
    fd = {a: [] for a in A}
    for r in range(60):
        tab = psm.psm_table(rng, n_spectra=800, paired=True, pi1=pi1, key_cols=("ExpMass",), n_info=1, n_noise=1, sep_strength=2.5, pep_pool=130, with_rid=False)
        if order != "shuffled":
            t = tab["truth"]["is_target"].values
            idx = np.argsort(~t, kind="stable")
            tab["df"] = tab["df"].iloc[idx].reset_index(drop=True); tab["truth"] = tab["truth"].iloc[idx].reset_index(drop=True)
        s = np.clip(np.round(tab["df"]["info0"].values.astype(float) / g), -L, L).astype(float)
        with core.scratch("to") as d:
            p = psm.write_pin(tab, d / "c.pin")
            ds = pipeline.read_datasets([p])
            with core.chunk_sizes(**({"CONFIDENCE_CHUNK_SIZE": 800} if chunked else {})):
                c = pipeline.run_confidence(ds, [s], d / "o", decoys=True, rng=1, peps_algorithm="kde_nnls")
            if not c.ok: continue
            files = pipeline.read_results(d / "o")
            f = c04.fdp_from_files(files, tab["truth"], "psms", A)
            for a in fd: fd[a].append(f[a][0] / max(1, f[a][1]))
    worst = max(A, key=lambda a: np.mean(fd[a]) - a)
    m = float(np.mean(fd[worst])); se = float(np.std(fd[worst], ddof=1) / np.sqrt(len(fd[worst])))
    print(order, "chunked" if chunked else "one chunk", f"levels={2*L+1} g={g} pi1={pi1}", "worst alpha", worst, "mean FDP", round(m, 3), "se", round(se, 4), "excess/se", round((m - worst) / max(se, 1e-9), 1))
